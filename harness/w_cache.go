package verifsim

// C03 — result caches are transparent, evaluation is side-effect free (query histories x
// cache capacity x lossy-cache faults through the updog.Cache seam).
// C07 — LRU cache contract (operation histories; the multi-client half is C04's LRU mode).

import (
	"strings"
	"encoding/json"
	"fmt"

	"github.com/RoaringBitmap/roaring"
	"github.com/akrennmair/updog"
	"verif/simrt"
)

type C03Case struct {
	Data    Dataset  `json:"data"`
	Open    OpenCfg  `json:"open"`
	Queries []*Query `json:"queries"`
	// Scribble: the caller overwrites every Result it received (after the oracle compared it)
	Scribble bool `json:"scribble,omitempty"`
	// Morph: the caller keeps ONE updog.Query value and edits its exported fields in place to
	// turn it into the next query of the history (nodes of matching type are re-used)
	Morph bool `json:"morph,omitempty"`
}

// morphExpr edits an existing library expression tree in place so that it means e, re-using
// every node whose type matches (exported fields only — what any caller may do).
func morphExpr(old updog.Expression, e *Expr) updog.Expression {
	switch e.Op {
	case "eq":
		if o, ok := old.(*updog.ExprEqual); ok && o != nil {
			o.Column, o.Value = string(e.Col), string(e.Val)
			return o
		}
	case "not":
		if o, ok := old.(*updog.ExprNot); ok && o != nil {
			o.Expr = morphExpr(o.Expr, e.Kids[0])
			return o
		}
	case "and":
		if o, ok := old.(*updog.ExprAnd); ok && o != nil {
			o.Exprs = morphList(o.Exprs, e.Kids)
			return o
		}
	case "or":
		if o, ok := old.(*updog.ExprOr); ok && o != nil {
			o.Exprs = morphList(o.Exprs, e.Kids)
			return o
		}
	}
	return e.ToUpdog()
}

func morphList(old []updog.Expression, kids []*Expr) []updog.Expression {
	out := old[:0:0]
	for i, k := range kids {
		var prev updog.Expression
		if i < len(old) {
			prev = old[i]
		}
		out = append(out, morphExpr(prev, k))
	}
	return out
}

func init() {
	register("C03", &World{Gen: genC03, Run: runC03})
	register("C07", &World{Gen: genC07, Run: runC07})
}

// relatedQueries builds a history biased to expressions whose cache keys could be confused:
// permuted/duplicated operands, the same leaves re-associated under the other operator,
// NOT pairs, shared sub-trees.
func relatedQueries(r *simrt.Rand, si *schemaInfo, n int) []*Query {
	var leaves []*Expr
	for i, nl := 0, r.Range(2, 5); i < nl; i++ {
		leaves = append(leaves, genLeaf(r, si, ExprOpts{}))
	}
	leaf := func() *Expr { return leaves[r.Intn(len(leaves))].Clone() }
	var pool []*Expr
	pick := func() *Expr {
		if len(pool) > 0 && r.Chance(1, 2) {
			return pool[r.Intn(len(pool))].Clone()
		}
		return leaf()
	}
	var out []*Query
	for len(out) < n {
		var e *Expr
		switch r.Intn(14) {
		case 12, 13:
			// the same leaves regrouped under the same pair of operators:
			// (a|b)&(c|d), (a|c)&(b|d), (a|d)&(b|c) — three meanings, one multiset of leaves
			a, b, c, d := leaf(), leaf(), leaf(), leaf()
			in, outer := "or", "and"
			if r.Chance(1, 2) {
				in, outer = "and", "or"
			}
			mk := func(w, x, y, z *Expr) *Expr {
				return &Expr{Op: outer, Kids: []*Expr{{Op: in, Kids: []*Expr{w.Clone(), x.Clone()}}, {Op: in, Kids: []*Expr{y.Clone(), z.Clone()}}}}
			}
			for _, g := range []*Expr{mk(a, b, c, d), mk(a, c, b, d), mk(a, d, b, c)} {
				pool = append(pool, g)
				out = append(out, &Query{Expr: g})
			}
			continue
		case 0:
			e = And(leaf(), leaf())
		case 1:
			e = Or(leaf(), leaf())
		case 2:
			a := leaf()
			e = And(a, a.Clone()) // duplicated operand
		case 3:
			a, b, c := leaf(), leaf(), leaf()
			e = And(Or(a, c), Or(b, c.Clone()))
		case 4:
			e = And(Not(leaf()), Not(leaf()))
		case 5:
			e = Not(Not(pick()))
		case 6:
			e = Not(pick())
		case 7:
			// same operands under the other operator
			p := pick()
			if (p.Op == "and" || p.Op == "or") && len(p.Kids) > 0 {
				q := p.Clone()
				if q.Op == "and" {
					q.Op = "or"
				} else {
					q.Op = "and"
				}
				e = q
			} else {
				e = Or(p, leaf())
			}
		case 8:
			// permuted operands
			p := pick()
			if (p.Op == "and" || p.Op == "or") && len(p.Kids) > 1 {
				q := p.Clone()
				i, j := r.Intn(len(q.Kids)), r.Intn(len(q.Kids))
				q.Kids[i], q.Kids[j] = q.Kids[j], q.Kids[i]
				e = q
			} else {
				e = And(p, leaf(), leaf())
			}
		case 9:
			// re-association: (a op b) op c  vs  a op (b op c)
			a, b, c := leaf(), leaf(), leaf()
			if r.Chance(1, 2) {
				e = And(And(a, b), c)
			} else {
				e = And(a, And(b, c))
			}
		case 10:
			e = &Expr{Op: []string{"and", "or"}[r.Intn(2)], Kids: []*Expr{pick()}} // single-operand operator
		default:
			e = GenExpr(r, si, 3, ExprOpts{MaxArity: 3})
		}
		pool = append(pool, e)
		q := &Query{Expr: e}
		if r.Chance(1, 6) {
			q.GroupBy = GenGroupBy(r, si, 2, false)
		}
		out = append(out, q)
	}
	return out
}

func genC03(c *Ctx) any {
	r := c.Rand("c03")
	cs := &C03Case{}
	cs.Data.Spec = GenDataSpec(c.Rand("data"), r.Range(1, 300), false)
	if r.Chance(1, 2) {
		// few columns, few values: more accidental structure among related queries
		cs.Data.Spec.Cols = []ColSpec{{Name: "a", Card: r.Range(1, 3), Shape: "uniform", Kind: "num"}, {Name: "b", Card: r.Range(1, 3), Shape: "uniform", Kind: "num", Missing: []int{0, 300}[r.Intn(2)]}}
	}
	if r.Chance(1, 5) {
		cs.Data.Spec.WeirdNames(r)
	}
	cs.Open = genOpenCfg(c.Rand("open"), true)
	cs.Open.ViaDB = false
	if r.Chance(1, 4) {
		cs.Open.Audit = true
	}
	manyValues := r.Chance(1, 12)
	if manyValues {
		// more than a thousand bitmaps (batched preloading, cache churn): a unique-per-row column
		cs.Data.Spec.N = []int{1001, 1002, 1500, 2001, 2600}[r.Intn(5)]
		cs.Data.Spec.Unique = "u"
		cs.Open.Preload = r.Chance(2, 3)
	}
	si := infoOf(cs.Data.Spec.Expand())
	cs.Queries = relatedQueries(r, si, r.Range(5, 60))
	if manyValues {
		// one query that looks at every single value
		all := &Query{Expr: Not(Eq("u", "no such row")), GroupBy: []S{"u"}}
		cs.Queries = append([]*Query{all}, cs.Queries...)
		cs.Queries = append(cs.Queries, all)
	}
	cs.Morph = r.Chance(1, 4)
	cs.Scribble = r.Chance(1, 4)
	if r.Chance(1, 10) {
		if rows, qs := spliceCase(r); rows != nil {
			cs.Data = Dataset{Rows: rows}
			cs.Queries = qs
			cs.Morph = false
			if cs.Open.Cache == "" || cs.Open.CacheBytes < 1<<20 {
				cs.Open.Cache, cs.Open.CacheBytes, cs.Open.Lossy = "lru", 64<<20, 0
			}
		}
	}
	return cs
}

// spliceCase builds a dataset and a history around column names and values that SPELL the printed form of
// expression syntax: whatever the library prints for `colA = valA <op> colB = valB` is cut so that one single
// comparison on a crafted column (or against a crafted value) prints the very same text. A result cache that keys
// on printed text then confuses two queries of different meaning. The printed form is taken from the library's
// own String() at generation time; if it quotes or escapes names (so that no such name exists) the case is not
// generated.
func spliceCase(r *simrt.Rand) ([]Row, []*Query) {
	pr := func(e *Expr) (s string) {
		_ = guard(func() { s = (&Query{Expr: e}).ToUpdog().Expr.String() })
		return s
	}
	op := []string{"and", "or"}[r.Intn(2)]
	nary := func(kids ...*Expr) *Expr { return &Expr{Op: op, Kids: kids} }
	const a, va, b, vb = "colA", "valA", "colB", "valB"
	whole := pr(nary(Eq(a, va), Eq(b, vb)))
	la, lb := pr(Eq(a, va)), pr(Eq(b, vb))
	i := strings.Index(whole, la)
	if whole == "" || la == "" || lb == "" || i < 0 {
		return nil, nil
	}
	j := strings.Index(whole[i+len(la):], lb)
	if j < 0 {
		return nil, nil
	}
	j += i + len(la)
	var rows []Row
	var qs []*Query
	two := nary(Eq(a, va), Eq(b, vb))
	// (1) a crafted column NAME
	if pa, pb := strings.Index(la, a), strings.Index(lb, b); pa >= 0 && pb >= 0 {
		n := whole[i+pa : j+pb+len(b)]
		if !strings.Contains(n, "\x00") && pr(nary(Eq(n, vb))) == whole {
			for k := 0; k < 24; k++ {
				h := r.U64()
				row := Row{{a, S([]string{va, "other"}[h&1])}, {b, S([]string{vb, "other"}[h>>1&1])}}
				if h>>2&3 != 0 {
					row = append(row, [2]S{S(n), S([]string{vb, "x"}[h>>4&1])})
				}
				rows = append(rows, row)
			}
			one := nary(Eq(n, vb))
			qs = append(qs, &Query{Expr: two}, &Query{Expr: one}, &Query{Expr: Not(one)}, &Query{Expr: Not(two)},
				&Query{Expr: one, GroupBy: []S{a}}, &Query{Expr: two, GroupBy: []S{a}}, &Query{Expr: Or(one, Eq(a, "other"))}, &Query{Expr: Or(two, Eq(a, "other"))})
		}
	}
	// (2) a crafted VALUE
	if pva, pvb := strings.LastIndex(la, va), strings.LastIndex(lb, vb); pva >= 0 && pvb >= 0 {
		w := whole[i+pva : j+pvb+len(vb)]
		if pr(nary(Eq(a, w))) == whole {
			for k := 0; k < 24; k++ {
				h := r.U64()
				rows = append(rows, Row{{a, S([]string{va, w, "other"}[h%3])}, {b, S([]string{vb, "other"}[h>>8&1])}})
			}
			one := nary(Eq(a, w))
			qs = append(qs, &Query{Expr: two}, &Query{Expr: one}, &Query{Expr: Not(two)}, &Query{Expr: Not(one)}, &Query{Expr: one, GroupBy: []S{b}}, &Query{Expr: two, GroupBy: []S{b}})
		}
	}
	if len(qs) == 0 {
		return nil, nil
	}
	// both orders occur: the history is the list, then its reverse
	for k := len(qs) - 1; k >= 0; k-- {
		qs = append(qs, qs[k])
	}
	return rows, qs
}

func runC03(c *Ctx, body json.RawMessage) *Verdict {
	v := OK()
	var cs C03Case
	if err := json.Unmarshal(body, &cs); err != nil {
		return v.Harness("decode: %v", err)
	}
	v.CaseKey = hashJSON(&cs)
	for _, q := range cs.Queries {
		if !q.Valid() {
			return Invalid("malformed expression")
		}
	}
	rows := cs.Data.Expand()
	ref := NewRefIndex(rows)
	path := c.Path("c.updog")
	fresh := c.Path("fresh.updog")
	if _, err := BuildIndex("mem-file", path, rows); err != nil {
		return v.Harness("build: %v", err)
	}
	if _, err := BuildIndex("mem-file", fresh, rows); err != nil {
		return v.Harness("build: %v", err)
	}
	shaBefore := fileSHA(path)
	d := simrt.NewDisk()
	d.ExpectRO[path] = true
	simrt.AttachDisk(d)
	idx, probe, err := OpenIndex(path, cs.Open, c.Seed)
	simrt.AttachDisk(nil)
	if err != nil {
		return v.Harness("open: %v", err)
	}
	fidx, err := updog.OpenIndex(fresh)
	if err != nil {
		idx.Close()
		return v.Harness("open fresh: %v", err)
	}
	defer fidx.Close()
	schemaBefore := ref.Schema()
	meanings := map[string]bool{}
	var kept *updog.Query
	ask := func(phase string, i int, q *Query) *Verdict {
		var res *updog.Result
		var err error
		uq := q.ToUpdog()
		if cs.Morph {
			if kept == nil {
				kept = uq
			} else {
				kept.Expr = morphExpr(kept.Expr, q.Expr)
				kept.GroupBy = uq.GroupBy
			}
			uq = kept
			v.Count("probe_query_value_edited_in_place", 1)
		}
		if p := guard(func() { res, err = idx.Execute(uq) }); p != "" {
			return v.Violate("panic", "%s query %d %s panicked: %s", phase, i, q, p)
		}
		want := ref.Execute(q)
		if cs.Scribble && res != nil {
			res = cloneAndScribbleResult(res) // the oracle keeps the copy, the library's memory is overwritten
		}
		if dd := CompareResult(want, res, err); dd != "" {
			fres, ferr := fidx.Execute(q.ToUpdog())
			fd := CompareResult(want, fres, ferr)
			if fd == "" {
				return v.Violate("cache-changes-result", "%s query %d %s on %s: %s — a freshly opened uncached index answers correctly", phase, i, q, cs.Open.Class(), dd)
			}
			return v.Violate("wrong-result", "%s query %d %s: %s (uncached index also wrong: %s)", phase, i, q, dd, fd)
		}
		return nil
	}
	for i, q := range cs.Queries {
		if bad := ask("history", i, q); bad != nil {
			idx.Close()
			return bad
		}
		if probe.audit != nil && probe.audit.conflict != "" {
			idx.Close()
			return v.Violate("cache-key-collision", "while evaluating history query %d (%s): %s — two expressions of different meaning share a cache key", i, q, probe.audit.conflict)
		}
		if b, e := ref.Eval(q.Expr); e == nil {
			meanings[fmt.Sprint(b)] = true
		}
	}
	// every earlier query once more: a cached or preloaded bitmap altered by a later evaluation shows up here
	for i, q := range cs.Queries {
		if bad := ask("re-ask", i, q); bad != nil {
			idx.Close()
			return bad
		}
	}
	// base bitmaps and schema unchanged
	if dd := CompareSchema(schemaBefore, idx.GetSchema()); dd != "" {
		idx.Close()
		return v.Violate("schema-changed", "%s", dd)
	}
	for _, col := range schemaBefore {
		for _, val := range col[1:] {
			if bad := ask("base", 0, &Query{Expr: Eq(col[0], val)}); bad != nil {
				idx.Close()
				return bad
			}
		}
	}
	idx.Close()
	if sha := fileSHA(path); sha != shaBefore {
		return v.Violate("file-modified", "index file changed while being queried")
	}
	if fl := d.Files[path]; fl != nil && fl.Stray > 0 {
		return v.Violate("stray-write", "%d writes reached the index file during queries", fl.Stray)
	}
	hits := probe.hit.Load()
	v.Count("cache_hits", hits)
	v.Count("cache_gets", probe.get.Load())
	if probe.lossy != nil {
		v.Count("fault_lossy_cache_forgets", probe.lossy.forgot)
	}
	if probe.audit != nil {
		v.Count("audit_puts", probe.audit.puts)
		v.Count("audit_distinct_keys", int64(len(probe.audit.seen)))
	}
	v.NonTrivial = (hits > 0 || (probe.audit != nil && probe.audit.puts > int64(len(probe.audit.seen)))) && len(meanings) >= 2
	v.StateKey = simrt.Hash3(simrt.HashStr(cs.Open.Class()), uint64(len(cs.Queries)), uint64(len(meanings)))
	return v
}

// ------------------------------------------------------------------------- C07

type LRUOp struct {
	Put  bool   `json:"put,omitempty"`
	Key  uint64 `json:"key"`
	Size int    `json:"size,omitempty"` // cardinality of the stored bitmap
	Same bool   `json:"same,omitempty"` // Put: the object most recently stored under this key, grown in place by Size values, is stored again
}

type C07Case struct {
	Cap        uint64  `json:"cap"`
	Ops        []LRUOp `json:"ops"`
	Exhaustive int     `json:"exhaustive,omitempty"` // >0: enumerate all sequences up to this length over the small alphabet that start with symbol First (ignores Ops)
	First      int     `json:"first,omitempty"`
}

var c07Sizes = []int{0, 40, 5000} // empty, ≈ a third of the small capacity, larger than it

func genC07(c *Ctx) any {
	r := c.Rand("c07")
	cs := &C07Case{}
	if c.Index < 36 {
		// exhaustive slice: all sequences up to length 5 (quick) / 6 (thorough), split over
		// 3 capacities x 12 first symbols
		cs.Cap = []uint64{0, 1500, 1 << 20}[c.Index%3]
		cs.First = c.Index / 3
		cs.Exhaustive = 5
		if c.Thorough() {
			cs.Exhaustive = 6
		}
		return cs
	}
	// capacities incl. the extremes of the parameter's type
	cs.Cap = []uint64{0, 100, 700, 1500, 5000, 40000, 1 << 22, 1, 1 << 62, 1<<63 - 1, 1 << 63, 1<<63 + 1, 1<<64 - 1}[r.Intn(13)]
	nk := r.Range(2, 12)
	sizes := []int{0, 1, 4, 30, 100, 400, 2000, 9000}
	nops := r.Range(20, 200)
	// key alphabets: keys are 64-bit hashes in real use. Small integers, key 0, the extremes, and keys
	// that coincide in their low 16 / 32 bits or differ only in the top bit.
	keyOf := func(i int) uint64 { return uint64(1 + i) }
	switch r.Intn(6) {
	case 0:
		base := r.U64()
		keyOf = func(i int) uint64 { return simrt.Hash3(base, uint64(i), 3) }
	case 1:
		low := r.U64() & 0xffffffff
		keyOf = func(i int) uint64 { return uint64(i)<<32 | low } // equal low words; i = 0 gives a small key
	case 2:
		pool := []uint64{0, 1, 1 << 16, 1<<16 + 1, 1 << 32, 1<<32 + 1, 1 << 63, 1<<63 + 1, 1<<64 - 1, 1<<64 - 2, 1<<32 - 1, 1<<31 - 1, 1 << 31}
		off := r.Intn(len(pool))
		keyOf = func(i int) uint64 { return pool[(off+i)%len(pool)] }
	}
	var bigs []int
	if r.Chance(1, 12) {
		// many entries, long history: thresholds in the number of entries, of operations, or of entries that
		// one Put displaces. Entries are small but not tiny (the bound is about bitmap bytes), and now and then
		// one Put stores a bitmap of 50..85% of the capacity.
		nk = r.Range(300, 1500)
		nops = r.Range(2*nk, 3*nk)
		sizes = []int{30, 100, 100, 250}
		cs.Cap = []uint64{1 << 16, 1 << 18, 1 << 20, 1 << 30, 1<<64 - 1}[r.Intn(5)]
		if cs.Cap <= 1<<20 {
			bigs = []int{int(cs.Cap) * 6 / 10, int(cs.Cap) * 8 / 10, int(cs.Cap) * 95 / 100}
		}
	}
	regrow := nk < 300 && r.Chance(1, 8) // callers that grow a stored bitmap in place and store it again
	for i := 0; i < nops; i++ {
		k := keyOf(r.Intn(nk))
		if nk >= 300 && i < nk {
			k = keyOf(i) // fill first, then mix
		}
		if r.Chance(1, 2) || (nk >= 300 && i < nk) || (bigs != nil && i == nops-1) {
			op := LRUOp{Put: true, Key: k, Size: sizes[r.Intn(len(sizes))]}
			if bigs != nil && i >= nk && (r.Chance(1, 300) || i == nops-1) {
				op.Size = bigs[r.Intn(len(bigs))] // one Put that has to displace hundreds of entries
			}
			if regrow && r.Chance(1, 3) {
				op.Same = true
			}
			cs.Ops = append(cs.Ops, op)
		} else {
			cs.Ops = append(cs.Ops, LRUOp{Key: k})
		}
	}
	return cs
}

const comfort = 1024 // per-entry allowance for "fits" / "fits comfortably"

func mkBitmap(id, card int) *roaring.Bitmap {
	bm := roaring.New()
	for k := 0; k < card; k++ {
		bm.Add(uint32(id)<<14 ^ uint32(k*7))
	}
	return bm
}

// checkLRUHistory replays ops on a fresh cache and checks every clause of the statement.
// Residency after step i is observed without perturbing recency by replaying the prefix on
// another fresh cache and probing each key once.
func checkLRUHistory(capacity uint64, ops []LRUOp, stride int, mk func(i, size int) *roaring.Bitmap) (sig, detail string) {
	var probe cacheProbe
	cache := updog.NewLRUCache(capacity, updog.WithCacheMetrics(&updog.CacheMetrics{CacheHit: &probe.hit, CacheMiss: &probe.miss, GetCall: &probe.get, PutCall: &probe.put}))
	bms := make([]*roaring.Bitmap, len(ops))
	grown := make([]bool, len(ops)) // Put i stores the object of an earlier Put again, grown in place just before
	prevPut := map[uint64]int{}
	hasSame := false
	for i, op := range ops {
		if op.Put {
			if j, ok := prevPut[op.Key]; ok && op.Same {
				bms[i], grown[i], hasSame = bms[j], true, true
			} else {
				bms[i] = mk(i, op.Size)
			}
			prevPut[op.Key] = i
		}
	}
	accounted := map[uint64]uint64{} // size of the latest bitmap of a key when it was stored
	keys := map[uint64]bool{}
	for _, op := range ops {
		keys[op.Key] = true
	}
	latest := map[uint64]*roaring.Bitmap{} // last bitmap put per key
	var recency []uint64                   // most recent first
	touch := func(k uint64) {
		for i, x := range recency {
			if x == k {
				recency = append(recency[:i], recency[i+1:]...)
				break
			}
		}
		recency = append([]uint64{k}, recency...)
	}
	var gets, puts, hits, misses int64
	evicted := map[uint64]bool{} // keys known not to be resident (model side, from observations)
	everTight := false           // true once the stored entries no longer fitted comfortably
	var comfy uint64             // bytes of everything stored so far, with the per-entry allowance
	for i, op := range ops {
		if op.Put {
			puts++
			if grown[i] {
				for k := 0; k < op.Size; k++ {
					bms[i].Add(uint32(i+1)<<14 ^ uint32(k*7) ^ 1<<31)
				}
			}
			if p := guard(func() { cache.Put(op.Key, bms[i]) }); p != "" {
				return "panic", fmt.Sprintf("Put panicked at step %d: %s", i, p)
			}
			if old, ok := accounted[op.Key]; ok {
				comfy -= old + comfort
			}
			accounted[op.Key] = bms[i].GetSizeInBytes()
			comfy += accounted[op.Key] + comfort
			latest[op.Key] = bms[i]
			delete(evicted, op.Key)
			touch(op.Key)
		} else {
			gets++
			var bm *roaring.Bitmap
			var ok bool
			if p := guard(func() { bm, ok = cache.Get(op.Key) }); p != "" {
				return "panic", fmt.Sprintf("Get panicked at step %d: %s", i, p)
			}
			if ok {
				hits++
				if bm != latest[op.Key] {
					return "wrong-bitmap", fmt.Sprintf("step %d: Get(%d) returned a bitmap other than the one most recently stored under that key", i, op.Key)
				}
				touch(op.Key)
			} else {
				misses++
				evicted[op.Key] = true
			}
		}
		if comfy > capacity {
			everTight = true
		}
		if i != len(ops)-1 && (stride <= 0 || i%stride != stride-1) {
			continue
		}
		// residency snapshot after step i, on a twin cache fed the same prefix. A history that grows stored
		// objects in place cannot be replayed on a twin: its residency is read from the cache itself, after the
		// last step only (the counters are compared first, the probing would disturb them).
		var twin *updog.LRUCache
		if hasSame {
			if i != len(ops)-1 {
				continue
			}
			if probe.get.Load() != gets || probe.put.Load() != puts || probe.hit.Load() != hits || probe.miss.Load() != misses {
				return "counters", fmt.Sprintf("counters get=%d put=%d hit=%d miss=%d, events get=%d put=%d hit=%d miss=%d",
					probe.get.Load(), probe.put.Load(), probe.hit.Load(), probe.miss.Load(), gets, puts, hits, misses)
			}
			twin = cache
		} else {
			twin = updog.NewLRUCache(capacity)
			for j := 0; j <= i; j++ {
				if ops[j].Put {
					twin.Put(ops[j].Key, bms[j])
				} else {
					twin.Get(ops[j].Key)
				}
			}
		}
		resident := map[uint64]bool{}
		var bytes uint64
		for k := range keys {
			if bm, ok := twin.Get(k); ok {
				if bm != latest[k] {
					return "wrong-bitmap", fmt.Sprintf("after step %d key %d holds a stale or foreign bitmap", i, k)
				}
				resident[k] = true
				bytes += bm.GetSizeInBytes()
			}
		}
		if bytes > capacity {
			return "byte-bound", fmt.Sprintf("after step %d the retrievable bitmaps hold %d bytes, capacity %d", i, bytes, capacity)
		}
		// LRU order: the resident set is a prefix of the recency order
		gap := false
		for _, k := range recency {
			if !resident[k] {
				gap = true
			} else if gap {
				return "lru-order", fmt.Sprintf("after step %d key %d is resident although a more recently used key was evicted (recency %v, resident %v)", i, k, recency, resident)
			}
		}
		if op.Put && bms[i].GetSizeInBytes()+comfort <= capacity && !resident[op.Key] {
			return "fitting-entry-not-stored", fmt.Sprintf("step %d: entry of %d bytes is not retrievable right after Put (capacity %d)", i, bms[i].GetSizeInBytes(), capacity)
		}
		if !everTight {
			for k := range latest {
				if !resident[k] {
					return "needless-eviction", fmt.Sprintf("after step %d key %d was evicted although everything stored fits comfortably (%d <= %d)", i, k, comfy, capacity)
				}
			}
		}
	}
	if hasSame {
		return "", ""
	}
	if probe.get.Load() != gets || probe.put.Load() != puts || probe.hit.Load() != hits || probe.miss.Load() != misses {
		return "counters", fmt.Sprintf("counters get=%d put=%d hit=%d miss=%d, events get=%d put=%d hit=%d miss=%d",
			probe.get.Load(), probe.put.Load(), probe.hit.Load(), probe.miss.Load(), gets, puts, hits, misses)
	}
	return "", ""
}

func runC07(c *Ctx, body json.RawMessage) *Verdict {
	v := OK()
	var cs C07Case
	if err := json.Unmarshal(body, &cs); err != nil {
		return v.Harness("decode: %v", err)
	}
	v.CaseKey = hashJSON(&cs)
	if cs.Exhaustive > 0 {
		// alphabet: 3 keys x (get | put of 3 sizes) = 12 symbols
		var alpha []LRUOp
		for k := uint64(1); k <= 3; k++ {
			alpha = append(alpha, LRUOp{Key: k})
			for _, s := range c07Sizes {
				alpha = append(alpha, LRUOp{Put: true, Key: k, Size: s})
			}
		}
		pre := map[[2]int]*roaring.Bitmap{}
		for i := 0; i < cs.Exhaustive; i++ {
			for _, sz := range c07Sizes {
				pre[[2]int{i, sz}] = mkBitmap(i+1, sz)
			}
		}
		mk := func(i, size int) *roaring.Bitmap { return pre[[2]int{i, size}] }
		if cs.First < 0 || cs.First >= len(alpha) {
			return Invalid("bad first symbol")
		}
		var count int64
		for l := 1; l <= cs.Exhaustive; l++ {
			seq := make([]LRUOp, l)
			seq[0] = alpha[cs.First]
			var rec func(d int) (string, string)
			rec = func(d int) (string, string) {
				if d == l {
					count++
					return checkLRUHistory(cs.Cap, seq, 0, mk)
				}
				for _, a := range alpha {
					seq[d] = a
					if sig, det := rec(d + 1); sig != "" {
						return sig, det
					}
				}
				return "", ""
			}
			if sig, det := rec(1); sig != "" {
				// the failing history is written out so that it can be replayed as an explicit case
				return v.Violate(sig, "exhaustive slice (cap %d, length %d): %s; history %s", cs.Cap, l, det, mustJSON(seq))
			}
		}
		v.Count("exhaustive_histories", count)
		v.NonTrivial = true
		v.StateKey = simrt.Hash3(1, cs.Cap, uint64(cs.Exhaustive)<<8|uint64(cs.First))
		return v
	}
	if sig, det := checkLRUHistory(cs.Cap, cs.Ops, c07Stride(len(cs.Ops)), func(i, size int) *roaring.Bitmap { return mkBitmap(i+1, size) }); sig != "" {
		return v.Violate(sig, "%s", det)
	}
	over := false
	seen := map[uint64]int{}
	for _, op := range cs.Ops {
		if op.Put {
			if prev, ok := seen[op.Key]; ok && prev != op.Size {
				over = true
			}
			seen[op.Key] = op.Size
		}
	}
	if over {
		v.Count("probe_overwrite_with_other_size", 1)
	}
	v.NonTrivial = len(cs.Ops) >= 3
	v.StateKey = simrt.Hash3(2, cs.Cap, uint64(len(cs.Ops)))
	return v
}

// c07Stride: residency is audited after every step of a short history and after about 25 steps of a long one
// (each audit replays the prefix on a twin cache).
func c07Stride(n int) int {
	if n <= 80 {
		return 1
	}
	return n/25 + 1
}

func mustJSON(x any) string {
	b, _ := json.Marshal(x)
	return string(b)
}
