package verifsim

import (
	"crypto/sha256"
	"encoding/hex"
	"encoding/json"
	"fmt"
	"io"
	"os"
	"syscall"
	"time"

	"github.com/RoaringBitmap/roaring"
	"github.com/akrennmair/updog"
	"github.com/akrennmair/updog/internal/openfile"
	"go.etcd.io/bbolt"
	"verif/simrt"
)

func hashJSON(v any) uint64 {
	b, _ := json.Marshal(v)
	return simrt.HashStr(string(b)) | 1
}

func fileSHA(path string) string {
	f, err := os.Open(path)
	if err != nil {
		return "ERR:" + err.Error()
	}
	defer f.Close()
	h := sha256.New()
	_, _ = io.Copy(h, f)
	return hex.EncodeToString(h.Sum(nil))
}

// SchedCfg is the per-run scheduling strategy (swarm).
type SchedCfg struct {
	Strategy string `json:"strategy"`
	P        uint64 `json:"p,omitempty"`
	Depth    int    `json:"depth,omitempty"`
	Horizon  int64  `json:"horizon,omitempty"`
}

func genSched(r *simrt.Rand, horizon int64) SchedCfg {
	switch r.Intn(10) {
	case 0, 1, 2:
		return SchedCfg{Strategy: "pct", Depth: r.Range(1, 3), Horizon: horizon}
	case 3:
		return SchedCfg{Strategy: "rand", P: 500}
	default:
		return SchedCfg{Strategy: "rand", P: []uint64{20, 50, 100, 200, 300}[r.Intn(5)]}
	}
}

func (s SchedCfg) Config(c *Ctx) simrt.Config {
	return simrt.Config{
		Seed: simrt.Mix(c.Seed ^ simrt.HashStr("schedule")), Strategy: s.Strategy, P: s.P, Depth: s.Depth, Horizon: s.Horizon,
		Replay: c.Replay, HangAfter: 10 * time.Minute,
	}
}

// applySim copies the scheduler's result into the verdict.
func applySim(v *Verdict, res *simrt.Result) {
	v.IL = res.ILHash | 1
	v.SimNs += int64(res.SimTime)
	v.Trace = &res.Trace
	v.Count("sched_decisions", int64(res.Decisions))
	v.Count("context_switches", int64(res.Switches))
	v.Count("yields", res.Yields)
	v.Count("arrivals", int64(res.Arrivals))
	v.Count("adopted_goroutines", int64(res.Spawned))
	v.Count("fault_hooks_fired", int64(res.HooksFired))
}

// ---------------------------------------------------------------- writers

// writer kinds: "mem-file" (IndexWriter.Flush), "mem-db" (IndexWriter.WriteToBoltDatabase
// into a caller-supplied DB), "big" (BigIndexWriter).
var writerKinds = []string{"mem-file", "mem-db", "big"}

type rowAdder interface {
	AddRow(values map[string]string) (uint32, error)
}

// BuildIndex writes rows with the given writer kind to path and returns the ids AddRow returned.
func BuildIndex(kind, path string, rows []Row) ([]uint32, error) {
	ids := make([]uint32, 0, len(rows))
	// how the caller treats the map it hands to AddRow (a function of the case, not of the path): a fresh map
	// per row that is left alone; ONE map, cleared and refilled for every row; a fresh map that is overwritten
	// with junk as soon as AddRow has returned. A writer may not keep the map.
	style := simrt.HashStr(kind) % 3
	if len(rows) > 0 {
		style = (simrt.HashStr(kind) ^ simrt.HashStr(fmt.Sprint(len(rows), rows[len(rows)/2]))) % 3
	}
	add := func(w rowAdder) error {
		shared := map[string]string{}
		for _, r := range rows {
			m := r.Map()
			if style == 1 {
				clear(shared)
				for k, v := range m {
					shared[k] = v
				}
				m = shared
			}
			id, err := w.AddRow(m)
			if err != nil {
				return fmt.Errorf("AddRow: %w", err)
			}
			ids = append(ids, id)
			if style == 2 {
				for k := range m {
					m[k] = "scribbled-after-AddRow"
				}
				m["scribbled-column"] = "x"
			}
		}
		clear(shared)
		return nil
	}
	switch kind {
	case "mem-file":
		w := updog.NewIndexWriter(path)
		if err := add(w); err != nil {
			return ids, err
		}
		return ids, w.Flush()
	case "mem-db":
		w := updog.NewIndexWriter("")
		if err := add(w); err != nil {
			return ids, err
		}
		db, err := simrt.BoltOpened(bbolt.Open(path, 0o644, &bbolt.Options{OpenFile: openfile.OpenFile(openfile.Options{FailIfFileExists: true})}))
		if err != nil {
			return ids, err
		}
		defer db.Close()
		return ids, w.WriteToBoltDatabase(db)
	case "big":
		tmp := path + ".tmpdb"
		defer os.Remove(tmp)
		tdb, err := simrt.BoltOpened(bbolt.Open(tmp, 0o600, nil))
		if err != nil {
			return ids, err
		}
		defer tdb.Close()
		db, err := simrt.BoltOpened(bbolt.Open(path, 0o644, &bbolt.Options{OpenFile: openfile.OpenFile(openfile.Options{FailIfFileExists: true})}))
		if err != nil {
			return ids, err
		}
		defer db.Close()
		w, err := updog.NewBigIndexWriter(db, tdb)
		if err != nil {
			return ids, err
		}
		if err := add(w); err != nil {
			return ids, err
		}
		return ids, w.Flush()
	}
	return nil, fmt.Errorf("unknown writer kind %q", kind)
}

// OpenCfg is how an index is opened.
type OpenCfg struct {
	Preload    bool   `json:"preload,omitempty"`
	Cache      string `json:"cache,omitempty"` // "" (none) | lru
	CacheBytes uint64 `json:"cache_bytes,omitempty"`
	Lossy      int    `json:"lossy,omitempty"` // per-mille of Get->miss / dropped Put in the lossy wrapper (0 = plain)
	ViaDB      bool   `json:"via_db,omitempty"` // OpenIndexFromBoltDatabase on a harness-opened DB
	Audit      bool   `json:"audit,omitempty"`  // cache seam holds the auditing cache (always misses, records every key -> bitmap)
}

func (o OpenCfg) Class() string {
	c := "ondemand"
	if o.Preload {
		c = "preload"
	}
	switch {
	case o.Cache == "":
		c += "/nocache"
	case o.CacheBytes == 0:
		c += "/lru0"
	case o.CacheBytes <= 400:
		c += "/lrutiny"
	case o.CacheBytes <= 4096:
		c += "/lrufew"
	default:
		c += "/lruample"
	}
	if o.Lossy > 0 {
		c += "/lossy"
	}
	if o.Audit {
		c += "/audit"
	}
	return c
}

func genOpenCfg(r *simrt.Rand, allowLossy bool) OpenCfg {
	o := OpenCfg{Preload: r.Chance(1, 2), ViaDB: r.Chance(1, 5)}
	switch r.Intn(5) {
	case 0:
	case 1:
		o.Cache, o.CacheBytes = "lru", 0
	case 2:
		o.Cache, o.CacheBytes = "lru", uint64(r.Range(100, 400))
	case 3:
		o.Cache, o.CacheBytes = "lru", uint64(r.Range(600, 4096))
	default:
		o.Cache, o.CacheBytes = "lru", []uint64{64 << 20, 64 << 20, 1 << 63, 1<<64 - 1}[r.Intn(4)]
	}
	if allowLossy && o.Cache != "" && r.Chance(1, 3) {
		o.Lossy = []int{50, 200, 500}[r.Intn(3)]
	}
	return o
}

// ctr is a counter metric for the harness. Plain increment: under the serialising
// scheduler exactly one task runs at a time, and an atomic would add happens-before edges
// between tasks that could hide a race in the code under test.
type ctr struct{ n int64 }

//go:norace
func (c *ctr) Inc() { c.n++ }

//go:norace
func (c *ctr) Load() int64 { return c.n }

// cacheProbe holds the counters wired into an LRU cache.
type cacheProbe struct {
	hit, miss, get, put ctr
	lru                 *updog.LRUCache
	lossy               *lossyCache
	audit               *auditCache
}

// auditCache sits in the updog.Cache seam, never returns a hit (always legal) and records
// every (key, bitmap) it is offered. One index is immutable, so one key must always come
// with the same set of rows: two Puts under one key with different contents mean that two
// expressions of different meaning share a cache key — whether or not a real cache would
// have retained the first entry long enough for the second to hit it.
type auditCache struct {
	seen     map[uint64]*roaring.Bitmap
	puts     int64
	conflict string
}

func (a *auditCache) Get(key uint64) (*roaring.Bitmap, bool) { return nil, false }

func (a *auditCache) Put(key uint64, bm *roaring.Bitmap) {
	a.puts++
	if prev, ok := a.seen[key]; ok {
		if !prev.Equals(bm) && a.conflict == "" {
			a.conflict = fmt.Sprintf("cache key %#x was offered with a bitmap of %d rows and later with a different one of %d rows", key, prev.GetCardinality(), bm.GetCardinality())
		}
		return
	}
	a.seen[key] = bm.Clone()
}

// OpenIndex opens path according to o. seed drives the lossy wrapper.
func OpenIndex(path string, o OpenCfg, seed uint64) (*updog.Index, *cacheProbe, error) {
	var opts []updog.IndexOption
	probe := &cacheProbe{}
	if o.Audit {
		probe.audit = &auditCache{seen: map[uint64]*roaring.Bitmap{}}
		opts = append(opts, updog.WithCache(probe.audit))
	} else if o.Cache == "lru" {
		probe.lru = updog.NewLRUCache(o.CacheBytes, updog.WithCacheMetrics(&updog.CacheMetrics{
			CacheHit: &probe.hit, CacheMiss: &probe.miss, GetCall: &probe.get, PutCall: &probe.put,
		}))
		var c updog.Cache = probe.lru
		if o.Lossy > 0 {
			probe.lossy = &lossyCache{inner: probe.lru, pm: uint64(o.Lossy), seed: seed}
			c = probe.lossy
		}
		opts = append(opts, updog.WithCache(c))
	}
	if o.Preload {
		opts = append(opts, updog.WithPreloadedData())
	}
	if o.ViaDB {
		db, err := simrt.BoltOpened(bbolt.Open(path, 0o644, &bbolt.Options{OpenFile: openfile.OpenFile(openfile.Options{FailIfFileDoesntExist: true})}))
		if err != nil {
			return nil, nil, err
		}
		idx, err := updog.OpenIndexFromBoltDatabase(db, opts...)
		return idx, probe, err
	}
	idx, err := updog.OpenIndex(path, opts...)
	return idx, probe, err
}

// lossyCache wraps a real cache through the updog.Cache seam and forgets on a seeded coin:
// a Get may miss and a Put may be dropped. Both are always legal for a cache ("buggify").
type lossyCache struct {
	inner  updog.Cache
	pm     uint64
	seed   uint64
	n      uint64
	forgot int64
}

type roaringBitmap = roaring.Bitmap

//go:norace
func (l *lossyCache) coin() bool {
	l.n++
	if simrt.Hash3(l.seed, l.n, 99)%1000 < l.pm {
		l.forgot++
		return true
	}
	return false
}

func (l *lossyCache) Get(key uint64) (*roaringBitmap, bool) {
	if l.coin() {
		return nil, false
	}
	return l.inner.Get(key)
}

func (l *lossyCache) Put(key uint64, bm *roaringBitmap) {
	if l.coin() {
		return
	}
	l.inner.Put(key, bm)
}

// flockFree reports whether a non-blocking exclusive flock on a new descriptor succeeds,
// i.e. nobody holds bbolt's file lock on path.
func flockFree(path string) (bool, error) {
	f, err := os.OpenFile(path, os.O_RDWR, 0)
	if err != nil {
		return false, err
	}
	defer f.Close()
	if err := syscall.Flock(int(f.Fd()), syscall.LOCK_EX|syscall.LOCK_NB); err != nil {
		if err == syscall.EWOULDBLOCK {
			return false, nil
		}
		return false, err
	}
	_ = syscall.Flock(int(f.Fd()), syscall.LOCK_UN)
	return true, nil
}

// guardHang runs f on its own goroutine. Besides a panic it recognises a self-deadlock: the
// goroutine has been blocked on a sync mutex for 15 s of wall time (e.g. a deferred
// bbolt DB.Close() waiting for the write transaction the same goroutine left open). The
// verdict comes from the goroutine's state in a stack dump, not from elapsed time alone: a
// call that is still computing is waited for (the per-run wall watchdog bounds that).
func guardHang(f func()) (panicked string, hung string) {
	done := make(chan string, 1)
	go hangProbeGoroutine(f, done)
	tick := time.NewTicker(250 * time.Millisecond)
	defer tick.Stop()
	start := time.Now()
	for {
		select {
		case p := <-done:
			return p, ""
		case <-tick.C:
			if time.Since(start) < 15*time.Second {
				continue
			}
			for _, g := range splitGoroutines(allStacksText()) {
				if !containsAny(g, "verifsim.hangProbeGoroutine") {
					continue
				}
				head := splitLines(g)[0]
				if containsAny(head, "sync.Mutex.Lock", "sync.RWMutex", "semacquire") {
					if len(g) > 2500 {
						g = g[:2500]
					}
					return "", g
				}
			}
		}
	}
}

func hangProbeGoroutine(f func(), done chan string) { done <- guard(f) }

// guard runs f and converts a panic into an error string.
func guard(f func()) (panicked string) {
	defer func() {
		if r := recover(); r != nil {
			panicked = fmt.Sprint(r)
		}
	}()
	f()
	return ""
}
