package verifsim

import "testing"

func TestWorker(t *testing.T) { WorkerMain(t) }
