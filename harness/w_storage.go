package verifsim

// Fault-free storage worlds: C01 (counts), C02 (group-by), C05 (round trip, reopen, writer
// agreement), C08 (query re-use). They are the fault-free configuration of the worlds whose
// faulted and concurrent configurations decide C03, C04, C06, C15–C18.

import (
	"encoding/json"
	"fmt"
	"os"
	"reflect"

	"github.com/akrennmair/updog"
	"github.com/akrennmair/updog/internal/openfile"
	"go.etcd.io/bbolt"
	"verif/simrt"
)

type StorageCase struct {
	Data     Dataset   `json:"data"`
	Writers  []string  `json:"writers"`
	Opens    []OpenCfg `json:"opens"`
	Queries  []*Query  `json:"queries"`
	NulProbe bool      `json:"nul_probe,omitempty"`
}

func init() {
	register("C01", &World{Gen: func(c *Ctx) any { return genStorage(c, false) }, Run: func(c *Ctx, b json.RawMessage) *Verdict { return runStorage(c, b, "C01") }})
	register("C02", &World{Gen: func(c *Ctx) any { return genStorage(c, true) }, Run: func(c *Ctx, b json.RawMessage) *Verdict { return runStorage(c, b, "C02") }})
	register("C05", &World{Gen: genC05, Run: runC05})
	register("C08", &World{Gen: genC08, Run: runC08})
}

// rowCountMenu draws a row count: mostly small, sometimes exactly at a boundary.
func rowCountMenu(r *simrt.Rand, thorough bool) int {
	switch r.Intn(20) {
	case 0:
		return 0
	case 1:
		return 1
	case 2, 3:
		return []int{999, 1000, 1001}[r.Intn(3)]
	case 4:
		return []int{4095, 4096, 4097}[r.Intn(3)]
	case 5:
		return r.Range(1500, 5000)
	case 6:
		if thorough {
			switch r.Intn(8) {
			case 0, 1, 2:
				return []int{65535, 65536, 65537}[r.Intn(3)]
			case 3:
				return r.Range(100000, 150000)
			}
		}
		if r.Chance(1, 4) {
			return []int{65535, 65536, 65537}[r.Intn(3)] // a roaring container boundary, also in the quick tier
		}
		return r.Range(200, 1500)
	default:
		return r.Range(2, 200)
	}
}

func genStorage(c *Ctx, groupBy bool) any {
	cs := &StorageCase{}
	if c.Prop == "C01" && c.Index == 0 {
		cs.NulProbe = true
	}
	r := c.Rand("storage")
	n := rowCountMenu(c.Rand("rows"), c.Thorough())
	sp := GenDataSpec(c.Rand("data"), n, false)
	if groupBy && r.Chance(2, 3) {
		// 4..7 low-cardinality columns so that long group-by lists have several sibling groups
		sp.Cols = nil
		for i, nc := 0, r.Range(4, 7); i < nc; i++ {
			sp.Cols = append(sp.Cols, ColSpec{Name: S(colNames[i]), Card: r.Range(1, 4), Shape: "uniform", Kind: []string{"num", "utf8", "mixed"}[r.Intn(3)], Missing: []int{0, 0, 100, 400}[r.Intn(4)]})
		}
		if r.Chance(1, 4) {
			// tuples that a joined-string key confuses: (p+sep+q, r) vs (p, q+sep+r)
			for i := range sp.Cols {
				sp.Cols[i].Kind, sp.Cols[i].Card, sp.Cols[i].Missing = "joinable", 9, 0
			}
			if sp.N < 120 {
				sp.N = r.Range(120, 400)
			}
		}
	}
	if r.Chance(1, 10) {
		// more than 1000 distinct values: crosses the in-memory writer's commit batch
		sp.Cols = append(sp.Cols, ColSpec{Name: "wide", Card: r.Range(1001, 2500), Shape: "uniform", Kind: "num"})
		if sp.N < 3000 {
			sp.N = r.Range(3000, 6000)
		}
	}
	if r.Chance(1, 4) {
		sp.WeirdNames(r)
	}
	var nameJoin []string // p, q, p+sep+q: column names that a joined-string key of a column LIST confuses
	if groupBy && len(sp.Cols) >= 3 && len(sp.Cols) < 20 && r.Chance(1, 8) {
		sep := []string{",", ", ", " ", ";", "|", "\x1f", "/", ":", "\t", "="}[r.Intn(10)]
		p, q := string(sp.Cols[0].Name), string(sp.Cols[1].Name)
		sp.Cols[2].Name = S(p + sep + q)
		nameJoin = []string{p, q, p + sep + q, q + sep + p}
		if len(sp.Cols) >= 4 {
			sp.Cols[3].Name = S(q + sep + p)
		}
	}
	cs.Data.Spec = sp
	// a seeded non-empty subset of the writers
	for _, w := range writerKinds {
		if r.Chance(2, 3) {
			cs.Writers = append(cs.Writers, w)
		}
	}
	if len(cs.Writers) == 0 {
		cs.Writers = []string{writerKinds[r.Intn(3)]}
	}
	if sp.N > 20000 {
		cs.Writers = cs.Writers[:1]
	}
	cs.Opens = []OpenCfg{{}, {Preload: true}}
	if r.Chance(1, 4) {
		cs.Opens = append(cs.Opens, OpenCfg{ViaDB: true, Preload: r.Chance(1, 2)})
	}
	rows := sp.Expand()
	si := infoOf(rows)
	nq := r.Range(30, 60)
	if sp.N > 20000 {
		nq = 25
	}
	for i := 0; i < nq; i++ {
		depth, arity := r.Range(1, 6), 5
		if sp.Heavy() && depth > 2 {
			depth, arity = 2, 4 // hundreds of 64 KiB operands make a 40 MiB query
		}
		q := &Query{Expr: GenExpr(r, si, depth, ExprOpts{MaxArity: arity, UnknownCol: r.Chance(1, 10)})}
		if groupBy {
			q.GroupBy = GenGroupBy(r, si, 6, true)
			if nameJoin != nil && i%4 == 1 {
				// colliding lists next to each other on the same open index, in both orders
				lists := [][]S{{S(nameJoin[0]), S(nameJoin[1])}, {S(nameJoin[2])}, {S(nameJoin[1]), S(nameJoin[0])}, {S(nameJoin[3])}}
				q.GroupBy = lists[(i/4)%4]
				if len(si.cols) > 0 && r.Chance(1, 3) {
					q.GroupBy = append(append([]S{}, q.GroupBy...), S(si.cols[r.Intn(len(si.cols))]))
				}
			}
		}
		cs.Queries = append(cs.Queries, q)
	}
	return cs
}

func nulProbe(c *Ctx, v *Verdict) *Verdict {
	rows := []Row{{{"a\x00b", "c"}}, {{"a", "b\x00c"}}}
	ref := NewRefIndex(rows)
	path := c.Path("nul.updog")
	if _, err := BuildIndex("mem-file", path, rows); err != nil {
		return v.Harness("nul probe build: %v", err)
	}
	idx, err := updog.OpenIndex(path)
	if err != nil {
		return v.Harness("nul probe open: %v", err)
	}
	defer idx.Close()
	q := &Query{Expr: Eq("a\x00b", "c")}
	res, err := idx.Execute(q.ToUpdog())
	if d := CompareResult(ref.Execute(q), res, err); d != "" {
		return v.Violate("nul-in-column-name", "column names containing NUL collide in the key hash: %s", d)
	}
	return v
}

func runStorage(c *Ctx, body json.RawMessage, prop string) *Verdict {
	v := OK()
	var cs StorageCase
	if err := json.Unmarshal(body, &cs); err != nil {
		return v.Harness("decode: %v", err)
	}
	v.CaseKey = hashJSON(&cs)
	if cs.NulProbe {
		return nulProbe(c, v)
	}
	for _, q := range cs.Queries {
		if !q.Valid() {
			return Invalid("malformed expression")
		}
	}
	if len(cs.Writers) == 0 || len(cs.Opens) == 0 {
		return Invalid("no configuration")
	}
	rows := cs.Data.Expand()
	for _, r := range rows {
		for _, kv := range r {
			for i := 0; i < len(kv[0]); i++ {
				if kv[0][i] == 0 {
					return Invalid("NUL in a column name is outside the quantifier")
				}
			}
		}
	}
	ref := NewRefIndex(rows)
	n := uint64(len(rows))
	want := make([]*RefResult, len(cs.Queries))
	for i, q := range cs.Queries {
		want[i] = ref.Execute(q)
		if !want[i].Err {
			switch prop {
			case "C01":
				if n > 0 && (q.Expr.HasNot() || q.Expr.Operators() >= 2) && want[i].Count != 0 && want[i].Count != n {
					v.NonTrivial = true
				}
			case "C02":
				if len(want[i].Groups) >= 2 && len(q.GroupBy) >= 2 {
					v.NonTrivial = true
				}
				if len(q.GroupBy) >= 5 && len(want[i].Groups) >= 2 {
					v.Count("probe_groupby_5plus_with_siblings", 1)
				}
			}
		} else {
			v.Count("probe_unknown_column_query", 1)
		}
	}
	if len(rows) > 1000 {
		v.Count("probe_rows_over_1000", 1)
	}
	v.StateKey = simrt.Hash3(simrt.HashStr(fmt.Sprint(cs.Writers, len(cs.Opens))), uint64(bucket(len(rows))), uint64(len(cs.Queries)))
	for wi, wk := range cs.Writers {
		path := c.Path(fmt.Sprintf("idx-%d.updog", wi))
		ids, err := BuildIndex(wk, path, rows)
		if err != nil {
			return v.Violate("write-error", "writer %s failed on a fresh path: %v", wk, err)
		}
		for i, id := range ids {
			if id != uint32(i) {
				return v.Violate("ids", "writer %s: AddRow #%d returned id %d", wk, i, id)
			}
		}
		for _, oc := range cs.Opens {
			idx, _, err := OpenIndex(path, oc, c.Seed)
			if err != nil {
				return v.Violate("open-error", "opening the index written by %s (%s) failed: %v", wk, oc.Class(), err)
			}
			for i, q := range cs.Queries {
				var res *updog.Result
				var qerr error
				if p := guard(func() { res, qerr = idx.Execute(q.ToUpdog()) }); p != "" {
					idx.Close()
					return v.Violate("panic", "Execute panicked: %s (query %s)", p, q)
				}
				if prop == "C01" && res != nil {
					res.Groups = nil
				}
				w := want[i]
				if prop == "C01" && !w.Err {
					w = &RefResult{Count: w.Count}
				}
				if d := CompareResult(w, res, qerr); d != "" {
					idx.Close()
					sig := "wrong-count"
					if prop == "C02" {
						sig = "wrong-groups"
					}
					if w.Err {
						sig = "unknown-column-not-rejected"
					}
					return v.Violate(sig, "writer=%s open=%s query %s: %s", wk, oc.Class(), q, d)
				}
				v.Count("queries_checked", 1)
			}
			idx.Close()
		}
		os.Remove(path)
	}
	return v
}

func bucket(n int) int {
	b := 0
	for n > 0 {
		n >>= 1
		b++
	}
	return b
}

// ------------------------------------------------------------------------- C05

type HistOp struct {
	Kind string  `json:"kind"` // open | probe | close | close2 (second Close of the same handle)
	Open OpenCfg `json:"open,omitempty"`
}

type C05Case struct {
	Data    Dataset  `json:"data"`
	Writers []string `json:"writers"`
	Hist    []HistOp `json:"hist"`
	Sample  int      `json:"sample"` // number of (column,value) membership probes
	// Twice: ONE in-memory writer is written out twice: "file-db" (Flush, then WriteToBoltDatabase), "db-file",
	// "db-db", or "grow" (half of the rows, write, the other half, write again): every output is complete
	Twice string `json:"twice,omitempty"`
}

func genC05(c *Ctx) any {
	r := c.Rand("c05")
	cs := &C05Case{}
	n := rowCountMenu(c.Rand("rows"), false)
	if n > 5000 {
		n = 5000
	}
	sp := GenDataSpec(c.Rand("data"), n, true)
	if r.Chance(1, 6) {
		sp.Cols = append(sp.Cols, ColSpec{Name: "wide", Card: r.Range(1001, 2200), Shape: "uniform", Kind: "num"})
		if c.Thorough() && r.Chance(1, 2) {
			sp.Cols = append(sp.Cols, ColSpec{Name: "wide2", Card: r.Range(1001, 3300), Shape: "uniform", Kind: "utf8"})
		}
		if sp.N < 2500 {
			sp.N = r.Range(2500, 4500)
		}
	}
	cs.Data.Spec = sp
	cs.Writers = append([]string{}, writerKinds...)
	if r.Chance(1, 3) {
		cs.Writers = []string{writerKinds[r.Intn(3)], "big"}
	}
	if (c.Thorough() && r.Chance(1, 120)) || r.Chance(1, 160) {
		// one value on more than 2^20 rows (buffers and batches sized in powers of two), no
		// unique column (a million distinct values would only measure patience)
		cs.Data.Spec = &DataSpec{Seed: sp.Seed, N: 1<<20 + r.Range(0, 2), Cols: []ColSpec{{Name: "a", Card: 1, Shape: "uniform", Kind: "num"}, {Name: "b", Card: 3, Shape: "uniform", Kind: "num", Missing: 500}}}
		cs.Writers = []string{"big", "mem-file"}
	}
	// history: starts with open, ends closed
	open := false
	for i, hl := 0, r.Range(2, 8); i < hl || open; i++ {
		switch {
		case !open:
			cs.Hist = append(cs.Hist, HistOp{Kind: "open", Open: genOpenCfg(r, false)})
			open = true
		case r.Chance(1, 2) && i < hl:
			cs.Hist = append(cs.Hist, HistOp{Kind: "probe"})
		default:
			cs.Hist = append(cs.Hist, HistOp{Kind: "probe"}, HistOp{Kind: "close"})
			if r.Chance(1, 3) {
				cs.Hist = append(cs.Hist, HistOp{Kind: "close2"})
			}
			open = false
		}
	}
	cs.Sample = 40
	if sp.N <= 300 {
		cs.Sample = 3000
	}
	if cs.Data.Spec.N <= 6000 && r.Chance(1, 4) {
		cs.Twice = []string{"file-db", "db-file", "db-db", "grow"}[r.Intn(4)]
	}
	return cs
}

// writeTwice feeds ONE in-memory writer and writes it out twice; both outputs are probed.
func writeTwice(c *Ctx, v *Verdict, mode string, rows []Row, uniq string, sample int) *Verdict {
	p1, p2 := c.Path("twice-1.updog"), c.Path("twice-2.updog")
	defer os.Remove(p1)
	defer os.Remove(p2)
	w := updog.NewIndexWriter(p1)
	toDB := func(path string) error {
		db, err := simrt.BoltOpened(bbolt.Open(path, 0o644, &bbolt.Options{OpenFile: openfile.OpenFile(openfile.Options{FailIfFileExists: true})}))
		if err != nil {
			return err
		}
		defer db.Close()
		return w.WriteToBoltDatabase(db)
	}
	add := func(rs []Row) error {
		for _, r := range rs {
			if _, err := w.AddRow(r.Map()); err != nil {
				return err
			}
		}
		return nil
	}
	// the writer's own file name is p1: Flush always goes there
	first, firstRows := w.Flush, rows
	out1, out2 := p1, p2
	second := func() error { return toDB(out2) }
	switch mode {
	case "file-db":
	case "db-file":
		out1, out2 = p2, p1
		first, second = func() error { return toDB(out1) }, w.Flush
	case "db-db":
		p3 := c.Path("twice-3.updog")
		defer os.Remove(p3)
		out1, out2 = p2, p3
		first, second = func() error { return toDB(out1) }, func() error { return toDB(out2) }
	case "grow":
		firstRows = rows[:len(rows)/2]
	default:
		return Invalid("unknown twice mode")
	}
	if err := add(firstRows); err != nil {
		return v.Violate("write-error", "AddRow: %v", err)
	}
	if p := guard(func() {
		if err := first(); err != nil {
			v.Violate("write-error", "twice=%s: first write failed: %v", mode, err)
		}
	}); p != "" {
		return v.Violate("panic", "twice=%s: first write panicked: %s", mode, p)
	}
	if v.Class == "violation" {
		return v
	}
	if err := add(rows[len(firstRows):]); err != nil {
		return v.Violate("write-error", "AddRow: %v", err)
	}
	if p := guard(func() {
		if err := second(); err != nil {
			v.Violate("write-error", "twice=%s: second write of the same writer failed: %v", mode, err)
		}
	}); p != "" {
		return v.Violate("panic", "twice=%s: second write panicked: %s", mode, p)
	}
	if v.Class == "violation" {
		return v
	}
	for k, out := range []struct {
		path string
		rows []Row
	}{{out1, firstRows}, {out2, rows}} {
		ref := NewRefIndex(out.rows)
		for _, oc := range []OpenCfg{{}, {Preload: true}} {
			idx, _, err := OpenIndex(out.path, oc, c.Seed)
			if err != nil {
				return v.Violate("open-error", "twice=%s: output %d of one writer does not open (%s): %v", mode, k+1, oc.Class(), err)
			}
			sig, d := probeIndex(idx, ref, uniq, sample, c.Seed+uint64(k))
			idx.Close()
			if sig != "" {
				return v.Violate(sig, "twice=%s: output %d of one writer written twice (%s): %s", mode, k+1, oc.Class(), d)
			}
		}
	}
	v.Count("probe_one_writer_written_twice", 1)
	return v
}

// probeIndex compares everything observable through idx with the reference.
func probeIndex(idx *updog.Index, ref *RefIndex, uniq string, sample int, seed uint64) (string, string) {
	if d := CompareSchema(ref.Schema(), idx.GetSchema()); d != "" {
		return "wrong-schema", d
	}
	check := func(q *Query) string {
		var res *updog.Result
		var err error
		if p := guard(func() { res, err = idx.Execute(q.ToUpdog()) }); p != "" {
			return "panic: " + p
		}
		return CompareResult(ref.Execute(q), res, err)
	}
	if ref.N() > 0 && uniq != "" {
		if d := check(&Query{Expr: Not(Eq(uniq, "∅"))}); d != "" {
			return "row-universe", "count(^" + uniq + "=∅): " + d
		}
	}
	sch := ref.Schema()
	type cv struct{ c, v string }
	var all []cv
	for _, col := range sch {
		if col[0] == uniq {
			continue
		}
		for _, val := range col[1:] {
			all = append(all, cv{col[0], val})
		}
	}
	// every value of every column at once: one group-by per column (a lost bitmap among thousands shows)
	for _, col := range sch {
		if n := len(col) - 1; n >= 2 && n <= 6000 && ref.N() <= 6000 {
			q := &Query{Expr: Not(Eq(col[0], "∅ no such value")), GroupBy: []S{S(col[0])}}
			if d := check(q); d != "" {
				return "wrong-membership", fmt.Sprintf("%s: %s", q, d)
			}
		}
	}
	step := 1
	if len(all) > sample && sample > 0 {
		step = len(all)/sample + 1
	}
	off := 0
	if step > 1 {
		off = int(seed % uint64(step))
	}
	for i := off; i < len(all); i += step {
		q := &Query{Expr: Eq(all[i].c, all[i].v)}
		if uniq != "" && ref.N() <= 1500 {
			q.GroupBy = []S{S(uniq)}
		}
		if d := check(q); d != "" {
			return "wrong-membership", fmt.Sprintf("%s: %s", q, d)
		}
	}
	return "", ""
}

func runC05(c *Ctx, body json.RawMessage) *Verdict {
	v := OK()
	var cs C05Case
	if err := json.Unmarshal(body, &cs); err != nil {
		return v.Harness("decode: %v", err)
	}
	v.CaseKey = hashJSON(&cs)
	if len(cs.Writers) == 0 {
		return Invalid("no writer")
	}
	rows := cs.Data.Expand()
	ref := NewRefIndex(rows)
	uniq := ""
	if cs.Data.Spec != nil {
		uniq = cs.Data.Spec.Unique
	} else if len(rows) > 0 {
		uniq = "u"
		seen := map[string]bool{}
		for _, r := range rows {
			u, ok := r.Map()["u"]
			if !ok || seen[u] {
				uniq = ""
				break
			}
			seen[u] = true
		}
	}
	distinct := 0
	for _, col := range ref.Schema() {
		distinct += len(col) - 1
	}
	reopens := -1
	for _, h := range cs.Hist {
		if h.Kind == "open" {
			reopens++
		}
	}
	v.NonTrivial = (distinct >= 1001 || len(rows) >= 1001) && reopens >= 1
	if distinct >= 1001 {
		v.Count("probe_over_1000_distinct_values", 1)
	}
	if len(rows) >= 1001 {
		v.Count("probe_over_1000_rows", 1)
	}
	v.StateKey = simrt.Hash3(simrt.HashStr(fmt.Sprint(cs.Writers)), uint64(bucket(len(rows)))<<8|uint64(bucket(distinct)), uint64(len(cs.Hist)))
	for wi, wk := range cs.Writers {
		path := c.Path(fmt.Sprintf("rt-%d.updog", wi))
		ids, err := BuildIndex(wk, path, rows)
		if err != nil {
			return v.Violate("write-error", "writer %s failed: %v", wk, err)
		}
		for i, id := range ids {
			if id != uint32(i) {
				return v.Violate("ids", "writer %s: AddRow #%d returned id %d", wk, i, id)
			}
		}
		var idx *updog.Index
		for hi, h := range cs.Hist {
			switch h.Kind {
			case "open":
				if idx != nil {
					return Invalid("open while open")
				}
				var err error
				var p string
				p = guard(func() { idx, _, err = OpenIndex(path, h.Open, c.Seed) })
				if p != "" {
					return v.Violate("panic", "open panicked at history step %d: %s", hi, p)
				}
				if err != nil {
					return v.Violate("open-error", "writer=%s history step %d: open (%s) failed: %v", wk, hi, h.Open.Class(), err)
				}
				v.Count("opens", 1)
			case "probe":
				if idx == nil {
					return Invalid("probe while closed")
				}
				if sig, d := probeIndex(idx, ref, uniq, cs.Sample, c.Seed+uint64(hi)); sig != "" {
					idx.Close()
					return v.Violate(sig, "writer=%s history step %d: %s", wk, hi, d)
				}
			case "close", "close2":
				if idx == nil {
					return Invalid("close while closed")
				}
				var err error
				if p := guard(func() { err = idx.Close() }); p != "" {
					return v.Violate("panic", "Close panicked at history step %d: %s", hi, p)
				}
				if h.Kind == "close" && err != nil {
					return v.Violate("close-error", "Close failed: %v", err)
				}
				if hi+1 >= len(cs.Hist) || cs.Hist[hi+1].Kind != "close2" {
					idx = nil
				}
			}
		}
		if idx != nil {
			idx.Close()
		}
		os.Remove(path)
	}
	if cs.Twice != "" {
		return writeTwice(c, v, cs.Twice, rows, uniq, cs.Sample)
	}
	return v
}

// ------------------------------------------------------------------------- C08

type C08Case struct {
	Datas []Dataset `json:"datas"` // 1..3 indexes
	Opens []OpenCfg `json:"opens"`
	Q     *Query    `json:"q"`
	Other []*Query  `json:"other"`
	Hist  []C08Step `json:"hist"`
}

type C08Step struct {
	Index int `json:"index"`
	Other int `json:"other,omitempty"` // k>0: execute Other[k-1] instead of the query under test
}

func genC08(c *Ctx) any {
	r := c.Rand("c08")
	cs := &C08Case{}
	ni := r.Range(1, 3)
	base := GenDataSpec(c.Rand("data"), r.Range(1, 150), false)
	twins := r.Chance(1, 6)
	if twins {
		// indexes that look alike from afar: a column with the same (large) NUMBER of distinct values in every
		// index, but different values (the value texts of this kind depend on the dataset seed)
		card := []int{2, 17, 255, 256, 257, 300, 1000, 1024}[r.Intn(8)]
		base.N = card
		base.Cols = append(base.Cols, ColSpec{Name: "hc", Card: card, Shape: "unique", Kind: []string{"utf8", "mixed"}[r.Intn(2)]})
		if ni < 2 {
			ni = 2
		}
	}
	for i := 0; i < ni; i++ {
		sp := *base
		if i > 0 && twins {
			sp.Seed = r.U64() | 1
		} else if i > 0 {
			sp.Seed = r.U64() | 1 // same columns, different rows
			sp.N = r.Range(1, 150)
			if len(base.Cols) > 1 && r.Chance(1, 3) {
				// ... or one column fewer: the query may name a column this index does not have
				drop := r.Intn(len(base.Cols))
				sp.Cols = append(append([]ColSpec{}, base.Cols[:drop]...), base.Cols[drop+1:]...)
			}
		}
		cs.Datas = append(cs.Datas, Dataset{Spec: &sp})
		cs.Opens = append(cs.Opens, genOpenCfg(r, false))
	}
	si := infoOf(base.Expand())
	cs.Q = &Query{Expr: GenExpr(r, si, r.Range(0, 3), ExprOpts{MaxArity: []int{3, 3, 6}[r.Intn(3)]})}
	if r.Chance(3, 4) {
		cs.Q.GroupBy = GenGroupBy(r, si, 3, r.Chance(1, 10))
	}
	if twins && r.Chance(3, 4) {
		cs.Q.GroupBy = []S{"hc"}
		if pre := GenGroupBy(r, si, 1, false); r.Chance(1, 3) && len(pre) == 1 && si.card[string(pre[0])]*si.card["hc"] <= 60000 {
			// (the library refines level by level: groups so far x values of the next column bitmap fetches)
			cs.Q.GroupBy = append(pre, "hc")
		}
	}
	for i := 0; i < 3; i++ {
		cs.Other = append(cs.Other, &Query{Expr: GenExpr(r, si, 2, ExprOpts{MaxArity: 3}), GroupBy: GenGroupBy(r, si, 2, false)})
	}
	for i, n := 0, r.Range(2, 10); i < n; i++ {
		st := C08Step{Index: r.Intn(ni)}
		if r.Chance(1, 4) {
			st.Other = 1 + r.Intn(len(cs.Other))
		}
		cs.Hist = append(cs.Hist, st)
	}
	return cs
}

func runC08(c *Ctx, body json.RawMessage) *Verdict {
	v := OK()
	var cs C08Case
	if err := json.Unmarshal(body, &cs); err != nil {
		return v.Harness("decode: %v", err)
	}
	v.CaseKey = hashJSON(&cs)
	if !cs.Q.Valid() || len(cs.Datas) == 0 || len(cs.Opens) < len(cs.Datas) {
		return Invalid("malformed case")
	}
	for _, q := range cs.Other {
		if !q.Valid() {
			return Invalid("malformed expression")
		}
	}
	var refs []*RefIndex
	var idxs []*updog.Index
	defer func() {
		for _, i := range idxs {
			i.Close()
		}
	}()
	for i, d := range cs.Datas {
		rows := d.Expand()
		refs = append(refs, NewRefIndex(rows))
		path := c.Path(fmt.Sprintf("q-%d.updog", i))
		if _, err := BuildIndex("mem-file", path, rows); err != nil {
			return v.Harness("build: %v", err)
		}
		idx, _, err := OpenIndex(path, cs.Opens[i], c.Seed)
		if err != nil {
			return v.Harness("open: %v", err)
		}
		idxs = append(idxs, idx)
	}
	uq := cs.Q.ToUpdog()
	exprBefore := uq.Expr.String()
	gbBefore := append([]string(nil), uq.GroupBy...)
	lenBefore, capBefore := len(uq.GroupBy), cap(uq.GroupBy)
	execs := 0
	for hi, st := range cs.Hist {
		if st.Index < 0 || st.Index >= len(idxs) {
			return Invalid("bad index")
		}
		if st.Other > 0 {
			if st.Other > len(cs.Other) {
				return Invalid("bad other")
			}
			_, _ = idxs[st.Index].Execute(cs.Other[st.Other-1].ToUpdog())
			continue
		}
		execs++
		var res, fres *updog.Result
		var err, ferr error
		if p := guard(func() { res, err = idxs[st.Index].Execute(uq) }); p != "" {
			return v.Violate("panic", "execution %d panicked: %s", execs, p)
		}
		fres, ferr = idxs[st.Index].Execute(cs.Q.ToUpdog())
		want := refs[st.Index].Execute(cs.Q)
		if d := CompareResult(want, res, err); d != "" {
			fd := CompareResult(want, fres, ferr)
			if fd == "" {
				return v.Violate("reuse-changes-result", "history step %d (execution %d of the same Query value on index %d): %s — a freshly constructed equal query is answered correctly", hi, execs, st.Index, d)
			}
			return v.Violate("wrong-result", "history step %d: %s (fresh query also wrong: %s)", hi, d, fd)
		}
		if uq.Expr.String() != exprBefore {
			return v.Violate("query-mutated", "Expr changed from %s to %s", exprBefore, uq.Expr.String())
		}
		if !reflect.DeepEqual(append([]string(nil), uq.GroupBy...), gbBefore) || len(uq.GroupBy) != lenBefore || cap(uq.GroupBy) != capBefore {
			return v.Violate("query-mutated", "GroupBy changed from %q to %q", gbBefore, uq.GroupBy)
		}
	}
	v.NonTrivial = len(cs.Q.GroupBy) > 0 && execs >= 2
	v.StateKey = simrt.Hash3(uint64(len(cs.Datas)), uint64(execs), uint64(len(cs.Q.GroupBy)))
	return v
}
