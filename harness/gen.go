package verifsim

import (
	"fmt"
	"sort"
	"strings"

	"verif/simrt"
)

// ColSpec describes how one column of a generated dataset is filled.
type ColSpec struct {
	Name    S      `json:"name"`
	Card    int    `json:"card"`    // number of distinct values
	Shape   string `json:"shape"`   // uniform | zipf | run | sparse | unique
	Missing int    `json:"missing"` // per-mille of rows lacking the column
	Kind    string `json:"kind"`    // num | utf8 | bin | mixed (includes "")
}

// DataSpec is a compact, deterministic description of a dataset.
type DataSpec struct {
	Seed          uint64    `json:"seed"`
	N             int       `json:"n"`
	Cols          []ColSpec `json:"cols"`
	EmptyRowPM    int       `json:"empty_row_pm"`
	TrailingEmpty int       `json:"trailing_empty"`
	Unique        string    `json:"unique,omitempty"` // name of a unique-per-row column ("" = none)
}

// Dataset is either a spec (expanded at run time) or explicit rows (after shrinking).
type Dataset struct {
	Spec *DataSpec `json:"spec,omitempty"`
	Rows []Row     `json:"rows,omitempty"`
}

func (d *Dataset) Expand() []Row {
	if d.Spec == nil {
		return d.Rows
	}
	return d.Spec.Expand()
}

func valueOf(kind string, seed uint64, col, j int) string {
	h := simrt.Hash3(seed, uint64(col)+77, uint64(j))
	switch kind {
	case "joinable":
		// values that a "join the tuple with a separator" key confuses across columns:
		// (p+sep+q, r) vs (p, q+sep+r)
		sep := joinSeps[int(seed%uint64(len(joinSeps)))]
		sep2 := joinSeps[int((seed/13)%uint64(len(joinSeps)))]
		return []string{"p", "q", "r", "p" + sep + "q", "q" + sep + "r", "p" + sep2 + "q", "q" + sep2 + "r", "p" + sep + "q" + sep + "r", ""}[j%9]
	case "ws":
		// values that differ only in the shape of a white-space run (inside, leading, trailing)
		return wsValues[j%len(wsValues)]
	case "huge":
		return hugeValue(j)
	case "boundary":
		// near-duplicate pairs (equal but for the last byte) whose length, together with the
		// column name, sits at and around powers of two: fixed-size buffers, page and key limits
		return boundaryValue(1, j) // Expand passes the real name length
	case "order":
		// values chosen to trap wrong comparisons: prefixes, case, bytes >= 0x80, digits, NUL, blanks
		return orderTraps[j%len(orderTraps)]
	case "utf8":
		alph := []string{"ä", "ö", "日", "本", "é", "x", "y", " ", "\"", ",", "\n", "🙂", "a", "b"}
		var sb strings.Builder
		n := 1 + int(h%5)
		for i := 0; i < n; i++ {
			sb.WriteString(alph[int(simrt.Hash3(h, uint64(i), 1)%uint64(len(alph)))])
		}
		return fmt.Sprintf("%s%d", sb.String(), j)
	case "bin":
		b := []byte{byte(h), byte(h >> 8), 0xff, 0xfe, 0x00, byte(j), byte(j >> 8), byte(j >> 16)}
		return string(b[:3+int(h>>20)%6])
	case "mixed":
		if j == 0 {
			return ""
		}
		if j%3 == 1 {
			return valueOf("utf8", seed, col, j)
		}
		return fmt.Sprintf("%d", j)
	default:
		return fmt.Sprintf("v%d", j)
	}
}

func boundaryValue(nameLen, j int) string {
	t := boundaryTotals[(j/2)%len(boundaryTotals)] - nameLen
	if t < 1 {
		t = 1
	}
	return strings.Repeat("x", t-1) + string(rune('a'+j%2))
}

var wsValues = []string{"p q", "p  q", "p\tq", "p\nq", " p q", "p q ", "pq", "p\u00a0q", "p \t q", "p\r\nq"}

var joinSeps = []string{"\x1f", ",", "\x00", "|", ";", " ", "\t", ":", "/", "\x1e", "=", "\n"}

var boundaryTotals = []int{15, 16, 17, 31, 32, 33, 63, 64, 65, 127, 128, 129, 130, 255, 256, 257, 511, 512, 513, 1023, 1024, 1025, 4095, 4096, 4097}

var orderTraps = []string{"", "A", "B", "a", "ab", "abc", "b", "Z", "z", "é", "É", "a\x00", "a ", " a", "10", "9", "2", "-1", "\xff", "~", "aB", "Ab", "ÿ", "日", "a\n"}

func (sp *DataSpec) Expand() []Row {
	// the exotic shapes stay affordable whatever a world did to N after drawing the spec: the disk-backed
	// writer stores one key per cell, every AddRow hashes the column names
	n := sp.N
	if len(sp.Cols) >= 20 && n*len(sp.Cols) > 40000 {
		n = 40000 / len(sp.Cols)
	}
	for _, cs := range sp.Cols {
		if (cs.Kind == "huge" || len(cs.Name) >= 255) && n > 5000 {
			n = 5000
		}
		if len(cs.Name) >= 4096 && n > 500 {
			n = 500 // every map operation on a row hashes the name
		}
	}
	rows := make([]Row, 0, n+sp.TrailingEmpty)
	long := map[[2]int]S{} // long values are built once per (column, value number)
	for i := 0; i < n; i++ {
		hi := simrt.Hash3(sp.Seed, uint64(i), 0)
		if int(hi%1000) < sp.EmptyRowPM {
			rows = append(rows, Row{})
			continue
		}
		var r Row
		for c, cs := range sp.Cols {
			h := simrt.Hash3(sp.Seed, uint64(i), uint64(c)+1)
			if int(h%1000) < cs.Missing {
				continue
			}
			card := cs.Card
			if card < 1 {
				card = 1
			}
			var j int
			switch cs.Shape {
			case "zipf":
				// skewed: value k with weight ~ 1/(k+1)
				x := (h >> 10) % uint64(card*card+1)
				j = card - 1 - isqrt(x)
				if j < 0 {
					j = 0
				}
			case "run":
				// long runs of equal values in row order
				run := n/card + 1
				j = (i / run) % card
			case "sparse":
				// value 0 dominates, the others are rare
				if (h>>10)%50 != 0 {
					j = 0
				} else {
					j = int((h >> 20) % uint64(card))
				}
			case "unique":
				j = i
			default:
				j = int((h >> 10) % uint64(card))
			}
			if cs.Kind == "boundary" || cs.Kind == "huge" {
				v, ok := long[[2]int{c, j}]
				if !ok {
					if cs.Kind == "huge" {
						v = S(hugeValue(j))
					} else {
						v = S(boundaryValue(len(cs.Name), j))
					}
					long[[2]int{c, j}] = v
				}
				r = append(r, [2]S{cs.Name, v})
			} else {
				r = append(r, [2]S{cs.Name, S(valueOf(cs.Kind, sp.Seed, c, j))})
			}
		}
		if sp.Unique != "" {
			r = append(r, [2]S{S(sp.Unique), S(fmt.Sprintf("r%d", i))})
		}
		rows = append(rows, r)
	}
	for i := 0; i < sp.TrailingEmpty; i++ {
		rows = append(rows, Row{})
	}
	return rows
}

func isqrt(x uint64) int {
	r := 0
	for uint64((r+1)*(r+1)) <= x {
		r++
	}
	return r
}

var colNames = []string{"a", "b", "c", "d", "e", "f", "g", "h", "city", "Kind", "x_1", "col7", "count"}

// GenDataSpec draws a dataset shape (swarm style) with about n rows.
func GenDataSpec(r *simrt.Rand, n int, wantUnique bool) *DataSpec {
	sp := &DataSpec{Seed: r.U64() | 1, N: n}
	ncols := r.Range(1, 6)
	if r.Chance(1, 3) {
		ncols = r.Range(4, 7)
	}
	kinds := []string{"num", "num", "utf8", "bin", "mixed", "order", "ws"}
	shapes := []string{"uniform", "uniform", "zipf", "run", "sparse"}
	perm := r.Intn(len(colNames))
	for c := 0; c < ncols; c++ {
		cs := ColSpec{Name: S(colNames[(perm+c)%len(colNames)])}
		switch r.Intn(6) {
		case 0:
			cs.Card = 1
		case 1, 2:
			cs.Card = r.Range(2, 4)
		case 3, 4:
			cs.Card = r.Range(3, 12)
		default:
			cs.Card = r.Range(10, 60)
		}
		cs.Shape = shapes[r.Intn(len(shapes))]
		cs.Kind = kinds[r.Intn(len(kinds))]
		if r.Chance(1, 3) {
			cs.Missing = []int{50, 300, 700, 950}[r.Intn(4)]
		}
		if r.Chance(1, 14) {
			cs.Kind, cs.Card, cs.Shape = "boundary", r.Range(20, 2*len(boundaryTotals)), "uniform"
		}
		sp.Cols = append(sp.Cols, cs)
	}
	if ncols >= 2 && r.Chance(1, 10) {
		// two (or more) columns drawing from the same joinable value set
		for c := 0; c < ncols && c < 3; c++ {
			sp.Cols[c].Kind, sp.Cols[c].Card, sp.Cols[c].Shape, sp.Cols[c].Missing = "joinable", 9, "uniform", 0
		}
	}
	if r.Chance(1, 4) {
		sp.EmptyRowPM = []int{20, 200}[r.Intn(2)]
	}
	if r.Chance(1, 4) {
		sp.TrailingEmpty = r.Range(1, 3)
	}
	if wantUnique {
		sp.Unique = "u"
	}
	if r.Chance(1, 12) {
		sp.exotic(r)
	}
	return sp
}

// exotic widens a dataset along one dimension the ordinary shapes keep small: the number of columns, the length
// of a column name, the length of values (around 64 KiB: 16-bit length fields).
func (sp *DataSpec) exotic(r *simrt.Rand) {
	switch r.Intn(3) {
	case 0:
		if sp.N > 3000 {
			return
		}
		n := []int{20, 63, 64, 65, 100, 255, 256, 257, 300}[r.Intn(9)]
		if sp.N*n > 40000 {
			sp.N = 40000 / n // the disk-backed writer stores one key per cell
		}
		for c := len(sp.Cols); c < n; c++ {
			cs := ColSpec{Name: S(fmt.Sprintf("w%03d", c)), Card: r.Range(1, 3), Shape: "uniform", Kind: "num"}
			if r.Chance(1, 2) {
				cs.Missing = []int{300, 700, 950}[r.Intn(3)]
			}
			sp.Cols = append(sp.Cols, cs)
		}
	case 1:
		if sp.N > 5000 {
			return // every AddRow hashes the name
		}
		l := []int{255, 256, 257, 1023, 1024, 1025, 4096, 65535, 65536, 65537}[r.Intn(10)]
		i := r.Intn(len(sp.Cols))
		sp.Cols[i].Name = S(strings.Repeat("k", l-2) + "_" + fmt.Sprint(i%10))
	case 2:
		if sp.N > 5000 {
			return
		}
		i := r.Intn(len(sp.Cols))
		sp.Cols[i].Kind, sp.Cols[i].Card, sp.Cols[i].Shape, sp.Cols[i].Missing = "huge", 8, "uniform", 900
		if sp.N < 30 {
			sp.Cols[i].Missing = 300
		}
	}
}

// Heavy reports whether names or values of the dataset are so long that expressions over them must stay small.
func (sp *DataSpec) Heavy() bool {
	for _, c := range sp.Cols {
		if c.Kind == "huge" || len(c.Name) >= 1024 {
			return true
		}
	}
	return false
}

var hugeLens = []int{65535, 65536, 65537, 70001}

// hugeValue: pairs of values of 64 KiB-ish length that differ only in the last byte.
func hugeValue(j int) string {
	return strings.Repeat("h", hugeLens[(j/2)%len(hugeLens)]-1) + string(rune('a'+j%2))
}

// weirdColumnNames: legal column names for the library and the wire (any string without NUL)
// that are not identifiers of the query language.
var weirdColumnNames = []string{"", "a,b", "a b", "ü", "a=b", "\"q\"", "a;b", "x\ny", "1st", "(", "Count", "a,", ",", "%v", "a\tb"}

// WeirdNames renames a seeded subset of the columns to non-identifier names. Only for worlds
// that do not go through the textual query language.
func (sp *DataSpec) WeirdNames(r *simrt.Rand) {
	used := map[string]bool{}
	for _, c := range sp.Cols {
		used[string(c.Name)] = true
	}
	for i := range sp.Cols {
		if r.Chance(1, 3) {
			n := weirdColumnNames[r.Intn(len(weirdColumnNames))]
			if !used[n] && n != sp.Unique {
				used[n] = true
				sp.Cols[i].Name = S(n)
			}
		}
	}
}

// schemaInfo lists columns and values of a dataset for expression generation.
type schemaInfo struct {
	cols []string
	vals map[string][]string
	card map[string]int
	n    int
}

func infoOf(rows []Row) *schemaInfo {
	si := &schemaInfo{vals: map[string][]string{}, card: map[string]int{}, n: len(rows)}
	seen := map[string]map[string]bool{}
	for _, r := range rows {
		for _, kv := range r {
			c, v := string(kv[0]), string(kv[1])
			if seen[c] == nil {
				seen[c] = map[string]bool{}
				si.cols = append(si.cols, c)
			}
			if !seen[c][v] {
				seen[c][v] = true
				si.card[c]++
				if len(si.vals[c]) < 200 {
					si.vals[c] = append(si.vals[c], v)
				}
			}
		}
	}
	sort.Strings(si.cols)
	for _, c := range si.cols {
		sort.Strings(si.vals[c])
	}
	return si
}

// ExprOpts tunes expression generation.
type ExprOpts struct {
	MaxDepth   int
	MaxArity   int
	UnknownCol bool // allow a leaf on a column that occurs in no row
	SkipCol    string
}

func genLeaf(r *simrt.Rand, si *schemaInfo, o ExprOpts) *Expr {
	if len(si.cols) == 0 || (o.UnknownCol && r.Chance(1, 6)) {
		return Eq(unknownCol(r, si), "v0")
	}
	c := si.cols[r.Intn(len(si.cols))]
	if c == o.SkipCol && len(si.cols) > 1 {
		c = si.cols[(r.Intn(len(si.cols)-1)+1+indexOf(si.cols, c))%len(si.cols)]
	}
	vs := si.vals[c]
	if r.Chance(1, 8) || len(vs) == 0 {
		return Eq(c, absentValue(r, si, c))
	}
	return Eq(c, vs[r.Intn(len(vs))])
}

func indexOf(xs []string, x string) int {
	for i, y := range xs {
		if y == x {
			return i
		}
	}
	return 0
}

// GenExpr draws an expression tree over the dataset's columns.
func GenExpr(r *simrt.Rand, si *schemaInfo, depth int, o ExprOpts) *Expr {
	if depth <= 0 || r.Chance(1, 4) {
		return genLeaf(r, si, o)
	}
	switch r.Intn(5) {
	case 0:
		return Not(GenExpr(r, si, depth-1, o))
	case 1, 2:
		return genNary(r, si, depth, o, "and")
	default:
		return genNary(r, si, depth, o, "or")
	}
}

func genNary(r *simrt.Rand, si *schemaInfo, depth int, o ExprOpts, op string) *Expr {
	ar := 1 + r.Intn(o.MaxArity)
	if ar == 1 && r.Chance(2, 3) {
		ar = 2
	}
	if o.MaxArity >= 4 && r.Chance(1, 25) {
		ar = r.Range(6, 24) // a wide node now and then
		depth = 1
	}
	if o.MaxArity >= 4 && r.Chance(1, 60) {
		// operand counts at and around powers of two (chunked or tree-shaped reductions)
		ar = []int{31, 32, 33, 63, 64, 65, 127, 128, 129, 255, 256, 257, 1023, 1024, 1025}[r.Intn(15)]
		depth = 1
	}
	if ar >= 31 {
		// a wide node is only informative if single operands matter: many copies of one leaf
		// plus ONE different operand (often the last one)
		base := genLeaf(r, si, o)
		for try := 0; try < 8 && (len(base.Val) > 300 || len(base.Col) > 300); try++ {
			base = genLeaf(r, si, o) // a thousand copies of a 64 KiB operand make a 64 MiB case
		}
		if len(base.Val) > 300 || len(base.Col) > 300 {
			ar = 31 + ar%3
		}
		if op == "or" {
			base = Eq(string(base.Col), "absent-value")
		}
		odd := GenExpr(r, si, 1, ExprOpts{MaxArity: 2, SkipCol: o.SkipCol})
		pos := r.Intn(ar)
		if r.Chance(1, 2) {
			pos = ar - 1
		}
		e := &Expr{Op: op}
		for i := 0; i < ar; i++ {
			if i == pos {
				e.Kids = append(e.Kids, odd)
			} else {
				e.Kids = append(e.Kids, base.Clone())
			}
		}
		return e
	}
	e := &Expr{Op: op}
	for i := 0; i < ar; i++ {
		if i > 0 && r.Chance(1, 6) {
			e.Kids = append(e.Kids, e.Kids[r.Intn(len(e.Kids))].Clone()) // duplicate operand
			continue
		}
		e.Kids = append(e.Kids, GenExpr(r, si, depth-1, o))
	}
	return e
}

func plainName(s string) bool {
	if s == "" || (s[0] >= '0' && s[0] <= '9') {
		return false
	}
	for i := 0; i < len(s); i++ {
		c := s[i]
		if !(c == '_' || (c >= '0' && c <= '9') || (c >= 'a' && c <= 'z') || (c >= 'A' && c <= 'Z')) {
			return false
		}
	}
	return true
}

// unknownCol returns a column name that occurs in no row: a fixed one, or a near miss of an existing name (one
// byte more or less, other case, doubled), and, where the dataset itself has names that are no identifiers, joins
// of two existing names with a separator, padded names and the empty name.
func unknownCol(r *simrt.Rand, si *schemaInfo) string {
	if len(si.cols) == 0 || r.Chance(1, 3) {
		return "nosuchcol"
	}
	weird := false
	for _, x := range si.cols {
		if !plainName(x) {
			weird = true
		}
	}
	c := si.cols[r.Intn(len(si.cols))]
	cand := []string{c + "x", c + "_", strings.ToUpper(c), strings.ToLower(c), c + c}
	if len(c) > 1 {
		cand = append(cand, c[:len(c)-1], c[1:])
	}
	if weird {
		d := si.cols[r.Intn(len(si.cols))]
		for _, sep := range []string{",", " ", ";", "|", "\x1f", "=", "/", ""} {
			cand = append(cand, c+sep+d)
		}
		cand = append(cand, c+" ", " "+c, "")
	}
	start := r.Intn(len(cand))
	for i := range cand {
		x := cand[(start+i)%len(cand)]
		if indexOf(si.cols, x) < 0 && (weird || plainName(x)) && !strings.Contains(x, "\x00") && len(x) < 300 {
			switch strings.ToLower(x) {
			case "and", "or", "not", "in", "group", "by", "count", "select", "from", "where":
				continue
			}
			return x
		}
	}
	return "nosuchcol"
}

// absentValue returns a value that column c never takes: a fixed one, a value of another column, or a near miss
// of one of its own values (one byte more or less, other case), or the empty string.
func absentValue(r *simrt.Rand, si *schemaInfo, c string) string {
	vs := si.vals[c]
	if len(vs) == 0 || r.Chance(1, 3) {
		return "absent-value"
	}
	v := vs[r.Intn(len(vs))]
	if len(v) > 300 {
		v = v[:300]
	}
	cand := []string{v + "x", v + " ", v + "\x00", strings.ToUpper(v), strings.ToLower(v), "", " " + v, v + v}
	if len(v) > 1 {
		cand = append(cand, v[:len(v)-1], v[1:])
	}
	d := si.cols[r.Intn(len(si.cols))]
	if ws := si.vals[d]; d != c && len(ws) > 0 {
		cand = append(cand, ws[r.Intn(len(ws))], ws[0])
	}
	cand = append(cand, c) // the column's own name
	start := r.Intn(len(cand))
	for i := range cand {
		x := cand[(start+i)%len(cand)]
		if indexOf(vs, x) < 0 {
			return x
		}
	}
	return "absent-value"
}

// GenGroupBy draws a group-by list of length 0..maxLen over existing, repeated and (rarely) unknown columns.
func GenGroupBy(r *simrt.Rand, si *schemaInfo, maxLen int, allowUnknown bool) (out []S) {
	if len(si.cols) == 0 {
		if allowUnknown && r.Chance(1, 4) {
			return []S{S(unknownCol(r, si))}
		}
		return nil
	}
	n := r.Intn(maxLen + 1)
	defer func() {
		// the library refines groups level by level at a cost of (#groups so far) x (values
		// of the next column) bitmap fetches; keep generated lists affordable (performance is
		// not what is being checked)
		groups, cost := 1, 0
		for i, c := range out {
			k := si.card[string(c)]
			cost += groups * k
			groups *= k
			if groups > si.n {
				groups = si.n
			}
			if cost > 60000 {
				out = out[:i]
				return
			}
		}
	}()
	for i := 0; i < n; i++ {
		switch {
		case allowUnknown && r.Chance(1, 25):
			out = append(out, S(unknownCol(r, si)))
		case i > 0 && r.Chance(1, 8):
			out = append(out, out[r.Intn(len(out))])
		default:
			out = append(out, S(si.cols[r.Intn(len(si.cols))]))
		}
	}
	return out
}
