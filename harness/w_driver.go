package verifsim

// Handle worlds over database/sql with the updog driver:
// C12 — rows = the library's result (fault-free configuration of the handle world)
// C11 — placeholder binding exact, prepared statements reusable (histories + schedules)
// C17 — handles survive any open/close/concurrent-use sequence (w_handles.go)

import (
	"database/sql"
	"encoding/json"
	"fmt"
	"io"
	"os"
	"strings"

	_ "github.com/akrennmair/updog/driver"
	"github.com/akrennmair/updog/internal/queryparser"
	pb "github.com/akrennmair/updog/proto/updog/v1"
	"google.golang.org/protobuf/proto"
	"verif/simrt"
)

// Arg is one bound argument: a string or an integer.
type Arg struct {
	S *S     `json:"s,omitempty"`
	I *int64 `json:"i,omitempty"`
}

func (a Arg) Any() any {
	if a.I != nil {
		return *a.I
	}
	if a.S != nil {
		return string(*a.S)
	}
	return ""
}

func (a Arg) Text() string { return fmt.Sprint(a.Any()) }

// DrvQuery is a query text with its arguments.
type DrvQuery struct {
	Text S     `json:"query"`
	Args []Arg `json:"args,omitempty"`
	Via  string `json:"via,omitempty"` // "" = DB.Query, "stmt" = DB.Prepare + Stmt.Query
	More [][]Arg `json:"more,omitempty"` // Via "stmt": further executions of the SAME prepared statement with these arguments
}

// exprTextTop prints an expression in the query language (own printer, independent of the
// formatter under test): nested n-ary operators are always parenthesised, a single-operand
// operator prints as its operand. ph maps a leaf index to a placeholder number (0 = literal).
func exprTextTop(e *Expr, ph func(i int) int) (string, []string) {
	leaf := 0
	var args []string
	var rec func(e *Expr, nested bool) string
	rec = func(e *Expr, nested bool) string {
		switch e.Op {
		case "eq":
			i := leaf
			leaf++
			if n := ph(i); n > 0 {
				for len(args) < n {
					args = append(args, "")
				}
				args[n-1] = string(e.Val)
				return fmt.Sprintf("%s = $%d", string(e.Col), n)
			}
			return fmt.Sprintf("%s = %s", string(e.Col), quote(string(e.Val)))
		case "not":
			return "^ " + rec(e.Kids[0], true)
		default:
			if len(e.Kids) == 1 {
				return rec(e.Kids[0], nested)
			}
			op := " & "
			if e.Op == "or" {
				op = " | "
			}
			var parts []string
			for _, k := range e.Kids {
				parts = append(parts, rec(k, true))
			}
			if nested {
				return "( " + strings.Join(parts, op) + " )"
			}
			return strings.Join(parts, op)
		}
	}
	return rec(e, false), args
}

// genDrvQuery prints q as text, turning a seeded subset of its literals into placeholders
// (repeated, out of order, with gaps) and producing the matching argument list.
func genDrvQuery(r *simrt.Rand, q *Query, placeholderPM int) DrvQuery {
	nleaf := 0
	var count func(e *Expr)
	count = func(e *Expr) {
		if e.Op == "eq" {
			nleaf++
		}
		for _, k := range e.Kids {
			count(k)
		}
	}
	count(q.Expr)
	perm := make([]int, nleaf)
	for i := range perm {
		perm[i] = i + 1
	}
	for i := nleaf - 1; i > 0; i-- {
		j := r.Intn(i + 1)
		perm[i], perm[j] = perm[j], perm[i]
	}
	if nleaf >= 2 && r.Chance(1, 3) {
		// repeated placeholders: several leaves share one number (and therefore one argument)
		k := r.Range(1, nleaf-1)
		for i := range perm {
			perm[i] = 1 + r.Intn(k)
		}
	}
	gap := 0
	if r.Chance(1, 5) {
		gap = r.Range(1, 2)
	}
	use := make([]bool, nleaf)
	for i := range use {
		use[i] = r.Intn(1000) < placeholderPM
	}
	text, args := exprTextTop(q.Expr, func(i int) int {
		if !use[i] {
			return 0
		}
		return perm[i] + gap
	})
	if len(q.GroupBy) > 0 {
		var g []string
		for _, c := range q.GroupBy {
			g = append(g, string(c))
		}
		text += " ; " + strings.Join(g, ", ")
	}
	dq := DrvQuery{Text: S(text)}
	for _, a := range args {
		s := S(a)
		dq.Args = append(dq.Args, Arg{S: &s})
	}
	return dq
}

// pbToExpr converts a parsed tree back into the harness's expression type, binding placeholders.
func pbToExpr(e *pb.Query_Expression, args []Arg, maxPH *int) *Expr {
	switch v := e.GetValue().(type) {
	case *pb.Query_Expression_Eq:
		val := v.Eq.Value
		if n := int(v.Eq.Placeholder); n > 0 {
			if n > *maxPH {
				*maxPH = n
			}
			if n <= len(args) {
				val = args[n-1].Text()
			}
		}
		return Eq(v.Eq.Column, val)
	case *pb.Query_Expression_Not_:
		return Not(pbToExpr(v.Not.Expr, args, maxPH))
	case *pb.Query_Expression_And_:
		x := &Expr{Op: "and"}
		for _, k := range v.And.Exprs {
			x.Kids = append(x.Kids, pbToExpr(k, args, maxPH))
		}
		return x
	case *pb.Query_Expression_Or_:
		x := &Expr{Op: "or"}
		for _, k := range v.Or.Exprs {
			x.Kids = append(x.Kids, pbToExpr(k, args, maxPH))
		}
		return x
	}
	return nil
}

// sqlWant is what the statement says a (text, args) pair must produce.
type sqlWant struct {
	MustErr  bool // an error, never rows
	MayErr   bool // too many arguments: an error or the correct rows
	Cols     []string
	Rows     [][]string // values..., count (decimal)
	Why      string
}

func wantFor(ref *RefIndex, dq DrvQuery) *sqlWant {
	tree, why := RefParse(string(dq.Text))
	if tree == nil {
		return &sqlWant{MustErr: true, Why: "not a sentence of the grammar: " + why}
	}
	maxPH := 0
	e := pbToExpr(tree.Expr, dq.Args, &maxPH)
	if len(dq.Args) < maxPH {
		return &sqlWant{MustErr: true, Why: fmt.Sprintf("%d arguments for highest placeholder $%d", len(dq.Args), maxPH)}
	}
	q := &Query{Expr: e}
	for _, g := range tree.GroupBy {
		q.GroupBy = append(q.GroupBy, S(g))
	}
	res := ref.Execute(q)
	if res.Err {
		return &sqlWant{MustErr: true, Why: "the library rejects the query (unknown column)"}
	}
	w := &sqlWant{MayErr: len(dq.Args) > maxPH}
	w.Cols = append(append([]string{}, tree.GroupBy...), "count")
	if len(q.GroupBy) == 0 {
		w.Rows = [][]string{{fmt.Sprint(res.Count)}}
	} else {
		for _, g := range res.Groups {
			w.Rows = append(w.Rows, append(append([]string{}, g.Vals...), fmt.Sprint(g.Count)))
		}
	}
	return w
}

type sqlOut struct {
	Cols  []string
	Types []string
	Rows  [][]string
	Err   string
	Panic string
	BadTy string
}

type queryer interface {
	Query(args ...any) (*sql.Rows, error)
}

func readRows(rows *sql.Rows, err error) *sqlOut {
	out := &sqlOut{}
	if err != nil {
		out.Err = err.Error()
		return out
	}
	defer rows.Close()
	cols, err := rows.Columns()
	if err != nil {
		out.Err = err.Error()
		return out
	}
	out.Cols = cols
	if cts, err := rows.ColumnTypes(); err == nil {
		for _, ct := range cts {
			out.Types = append(out.Types, ct.DatabaseTypeName())
		}
	}
	for rows.Next() {
		vals := make([]any, len(cols))
		ptrs := make([]any, len(cols))
		for i := range vals {
			ptrs[i] = &vals[i]
		}
		if err := rows.Scan(ptrs...); err != nil {
			out.Err = "scan: " + err.Error()
			return out
		}
		row := make([]string, len(cols))
		for i, v := range vals {
			switch x := v.(type) {
			case string:
				row[i] = x
				if i == len(cols)-1 {
					out.BadTy = "count column holds a string"
				}
			case int64:
				row[i] = fmt.Sprint(x)
				if i != len(cols)-1 {
					out.BadTy = "group column holds an integer"
				}
			case []byte:
				row[i] = string(x)
			case nil:
				row[i] = "<NULL>"
				out.BadTy = fmt.Sprintf("column %d is NULL", i)
			default:
				row[i] = fmt.Sprint(x)
				out.BadTy = fmt.Sprintf("column %d has type %T", i, v)
			}
		}
		out.Rows = append(out.Rows, row)
	}
	if err := rows.Err(); err != nil {
		out.Err = err.Error()
	}
	return out
}

func anyArgs(args []Arg) []any {
	out := make([]any, len(args))
	for i, a := range args {
		out[i] = a.Any()
	}
	return out
}

func runDB(db *sql.DB, dq DrvQuery) (out *sqlOut) {
	out = &sqlOut{}
	if p := guard(func() {
		if dq.Via == "stmt" {
			st, err := db.Prepare(string(dq.Text))
			if err != nil {
				out = &sqlOut{Err: err.Error()}
				return
			}
			defer st.Close()
			out = readRows(st.Query(anyArgs(dq.Args)...))
			return
		}
		out = readRows(db.Query(string(dq.Text), anyArgs(dq.Args)...))
	}); p != "" {
		out = &sqlOut{Panic: p}
	}
	return out
}

// runSeries prepares dq once and executes it with dq.Args and then with every list of dq.More.
func runSeries(db *sql.DB, dq DrvQuery) (outs []*sqlOut) {
	n := 1 + len(dq.More)
	fill := func(o *sqlOut) []*sqlOut {
		for len(outs) < n {
			outs = append(outs, o)
		}
		return outs
	}
	if p := guard(func() {
		st, err := db.Prepare(string(dq.Text))
		if err != nil {
			fill(&sqlOut{Err: err.Error()})
			return
		}
		defer st.Close()
		outs = append(outs, readRows(st.Query(anyArgs(dq.Args)...)))
		for _, a := range dq.More {
			outs = append(outs, readRows(st.Query(anyArgs(a)...)))
		}
	}); p != "" {
		fill(&sqlOut{Panic: p})
	}
	return outs
}

// runOverlapped issues both queries before reading either result set, then reads the two
// alternately row by row.
func runOverlapped(db *sql.DB, a, b DrvQuery) (oa, ob *sqlOut) {
	oa, ob = &sqlOut{}, &sqlOut{}
	if p := guard(func() {
		ra, ea := db.Query(string(a.Text), anyArgs(a.Args)...)
		rb, eb := db.Query(string(b.Text), anyArgs(b.Args)...)
		if ea != nil || eb != nil {
			// fall back to plain reading: an error on either side leaves nothing to interleave
			if ra != nil {
				oa = readRows(ra, nil)
			} else {
				oa = &sqlOut{Err: ea.Error()}
			}
			if rb != nil {
				ob = readRows(rb, nil)
			} else {
				ob = &sqlOut{Err: eb.Error()}
			}
			return
		}
		defer ra.Close()
		defer rb.Close()
		step := func(rows *sql.Rows, o *sqlOut) bool {
			if o.Cols == nil {
				o.Cols, _ = rows.Columns()
				if cts, err := rows.ColumnTypes(); err == nil {
					for _, ct := range cts {
						o.Types = append(o.Types, ct.DatabaseTypeName())
					}
				}
			}
			if !rows.Next() {
				if err := rows.Err(); err != nil {
					o.Err = err.Error()
				}
				return false
			}
			vals := make([]any, len(o.Cols))
			ptrs := make([]any, len(o.Cols))
			for i := range vals {
				ptrs[i] = &vals[i]
			}
			if err := rows.Scan(ptrs...); err != nil {
				o.Err = "scan: " + err.Error()
				return false
			}
			row := make([]string, len(vals))
			for i, v := range vals {
				switch x := v.(type) {
				case string:
					row[i] = x
				case int64:
					row[i] = fmt.Sprint(x)
				case nil:
					row[i] = "<NULL>"
					o.BadTy = fmt.Sprintf("column %d is NULL", i)
				default:
					row[i] = fmt.Sprint(x)
				}
			}
			o.Rows = append(o.Rows, row)
			return true
		}
		ma, mb := true, true
		for ma || mb {
			if ma {
				ma = step(ra, oa)
			}
			if mb {
				mb = step(rb, ob)
			}
		}
	}); p != "" {
		oa, ob = &sqlOut{Panic: p}, &sqlOut{Panic: p}
	}
	return oa, ob
}

// compareSQL returns (signature, detail) or "".
func compareSQL(w *sqlWant, o *sqlOut) (string, string) {
	if o.Panic != "" {
		return "panic", "panicked: " + o.Panic
	}
	if w.MustErr {
		if o.Err == "" {
			return "error-expected", fmt.Sprintf("returned rows %v (columns %v) where an error is required: %s", o.Rows, o.Cols, w.Why)
		}
		return "", ""
	}
	if o.Err != "" {
		if w.MayErr {
			return "", ""
		}
		return "unexpected-error", "unexpected error: " + o.Err
	}
	if fmt.Sprint(o.Cols) != fmt.Sprint(w.Cols) {
		return "wrong-columns", fmt.Sprintf("columns %q, want %q", o.Cols, w.Cols)
	}
	for i, t := range o.Types {
		want := "TEXT"
		if i == len(o.Types)-1 {
			want = "BIGINT"
		}
		if t != want {
			return "wrong-column-type", fmt.Sprintf("column %d typed %s, want %s", i, t, want)
		}
	}
	if len(o.Types) != len(w.Cols) {
		return "wrong-column-type", fmt.Sprintf("%d column types for %d columns", len(o.Types), len(w.Cols))
	}
	if len(o.Rows) != len(w.Rows) {
		return "wrong-rows", fmt.Sprintf("%d rows %v, want %d rows %v", len(o.Rows), clip(o.Rows), len(w.Rows), clip(w.Rows))
	}
	for i := range o.Rows {
		if strings.Join(o.Rows[i], "\x00|") != strings.Join(w.Rows[i], "\x00|") {
			return "wrong-rows", fmt.Sprintf("row %d is %q, want %q", i, o.Rows[i], w.Rows[i])
		}
	}
	if o.BadTy != "" {
		return "wrong-value-type", o.BadTy
	}
	return "", ""
}

func clip(rows [][]string) [][]string {
	if len(rows) > 4 {
		return rows[:4]
	}
	return rows
}

func copyFile(src, dst string) error {
	in, err := os.Open(src)
	if err != nil {
		return err
	}
	defer in.Close()
	out, err := os.Create(dst)
	if err != nil {
		return err
	}
	if _, err := io.Copy(out, in); err != nil {
		out.Close()
		return err
	}
	return out.Close()
}

// ------------------------------------------------------------------------- C12

type C12Case struct {
	Data    Dataset    `json:"data"`
	DSNOpts []string   `json:"dsn_opts"`
	Queries []DrvQuery `json:"queries"`
	// Overlap: consecutive pairs of queries are issued before either result set is read, and
	// the two are then read alternately (nested iteration over two Rows of one handle)
	Overlap bool `json:"overlap,omitempty"`
}

var dsnOptMenu = []string{"", "preload=true", "lrucache=true&lrucachesize=0", "lrucache=true&lrucachesize=300", "lrucache=true&lrucachesize=10000000", "lrucache=true&lrucachesize=18446744073709551615", "lrucache=true&lrucachesize=9223372036854775808",
	"preload=true&lrucache=true&lrucachesize=2000", "lrucache=true&lrucachesize=abc", "preload=false&lrucache=false"}

func init() {
	register("C12", &World{Gen: genC12, Run: runC12})
	register("C11", &World{Gen: genC11, Run: runC11, Races: true})
}

func genC12(c *Ctx) any {
	r := c.Rand("c12")
	cs := &C12Case{}
	cs.Data.Spec = GenDataSpec(c.Rand("data"), r.Range(0, 200), false)
	for i, n := 0, r.Range(1, 3); i < n; i++ {
		cs.DSNOpts = append(cs.DSNOpts, dsnOptMenu[r.Intn(len(dsnOptMenu))])
	}
	si := infoOf(cs.Data.Spec.Expand())
	cs.Overlap = r.Chance(1, 4)
	for i, n := 0, r.Range(4, 14); i < n; i++ {
		q := &Query{Expr: GenExpr(r, si, r.Range(0, 3), ExprOpts{MaxArity: 3, UnknownCol: r.Chance(1, 8)})}
		switch r.Intn(4) {
		case 0:
		case 1:
			q.GroupBy = GenGroupBy(r, si, 1, false)
		default:
			q.GroupBy = GenGroupBy(r, si, 3, r.Chance(1, 10))
		}
		if r.Chance(1, 4) {
			// matches nothing
			q.Expr = And(q.Expr, Eq(string(firstCol(si)), "absent-value"))
		}
		dq := genDrvQuery(r, q, []int{0, 0, 300, 1000}[r.Intn(4)])
		if r.Chance(1, 3) {
			dq.Via = "stmt"
		}
		if r.Chance(1, 12) {
			dq.Text = S(string(dq.Text) + []string{" )", " & ", " extra", " ;"}[r.Intn(4)]) // unparsable
		}
		cs.Queries = append(cs.Queries, dq)
	}
	return cs
}

func firstCol(si *schemaInfo) string {
	if len(si.cols) == 0 {
		return "nosuchcol"
	}
	return si.cols[0]
}

func runC12(c *Ctx, body json.RawMessage) *Verdict {
	v := OK()
	var cs C12Case
	if err := json.Unmarshal(body, &cs); err != nil {
		return v.Harness("decode: %v", err)
	}
	v.CaseKey = hashJSON(&cs)
	rows := cs.Data.Expand()
	ref := NewRefIndex(rows)
	base := c.Path("drv.updog")
	if _, err := BuildIndex("mem-file", base, rows); err != nil {
		return v.Harness("build: %v", err)
	}
	for di, opt := range cs.DSNOpts {
		// one file per option string: two handles on one file with different options are C17's business
		path := c.Path(fmt.Sprintf("drv-%d.updog", di))
		if err := copyFile(base, path); err != nil {
			return v.Harness("copy: %v", err)
		}
		dsn := "file:" + path
		if opt != "" {
			dsn += "?" + opt
		}
		invalidOpt := strings.Contains(opt, "lrucachesize=abc")
		db, err := sql.Open("updog", dsn)
		if err != nil && invalidOpt {
			// an invalid option value has to be refused; whether by sql.Open or by the first use is the driver's choice
			v.Count("invalid_dsn_refused_by_sql_open", 1)
			continue
		}
		if err != nil {
			return v.Violate("open-error", "sql.Open(%q): %v", dsn, err)
		}
		if cs.Overlap && !invalidOpt {
			for qi := 0; qi+1 < len(cs.Queries); qi += 2 {
				o1, o2 := runOverlapped(db, cs.Queries[qi], cs.Queries[qi+1])
				for k, o := range []*sqlOut{o1, o2} {
					dq := cs.Queries[qi+k]
					if sig, d := compareSQL(wantFor(ref, dq), o); sig != "" {
						db.Close()
						return v.Violate(sig, "dsn options %q, query %d %q (result set open together with query %d's): %s", opt, qi+k, string(dq.Text), qi+1-k, d)
					}
				}
				v.Count("probe_overlapping_result_sets", 1)
			}
		}
		for qi, dq := range cs.Queries {
			w := wantFor(ref, dq)
			if invalidOpt {
				w = &sqlWant{MustErr: true, Why: "invalid lrucachesize in the DSN"}
			}
			o := runDB(db, dq)
			if sig, d := compareSQL(w, o); sig != "" {
				db.Close()
				return v.Violate(sig, "dsn options %q, query %d %q args %v: %s", opt, qi, string(dq.Text), argTexts(dq.Args), d)
			}
			if !w.MustErr && (len(w.Rows) >= 2 || (len(w.Cols) > 1 && len(w.Rows) == 0)) {
				v.NonTrivial = true
			}
			if !w.MustErr && len(w.Cols) > 1 && len(w.Rows) == 0 {
				v.Count("probe_grouped_query_without_groups", 1)
			}
			v.Count("queries_checked", 1)
		}
		if p := guard(func() { db.Close() }); p != "" {
			return v.Violate("panic", "DB.Close panicked: %s", p)
		}
	}
	v.StateKey = simrt.Hash3(simrt.HashStr(strings.Join(cs.DSNOpts, "|")), uint64(len(cs.Queries)), uint64(bucket(len(rows))))
	return v
}

func argTexts(args []Arg) []string {
	var out []string
	for _, a := range args {
		out = append(out, a.Text())
	}
	return out
}

// ------------------------------------------------------------------------- C11

type C11Exec struct {
	Args []Arg  `json:"args"`
	Via  string `json:"via"` // stmt | direct | replace (queryparser.ReplacePlaceholders called directly)
}

type C11Case struct {
	Data  Dataset    `json:"data"`
	Text  S          `json:"query"`
	Execs []C11Exec  `json:"execs"`
	Tasks int        `json:"tasks,omitempty"` // >0: the executions with Via=stmt are spread over this many tasks sharing one *sql.Stmt
	Sched SchedCfg   `json:"sched"`
}

var argTexts11 = []string{"", "v0", "v1", "v2", "x\"y", "line\nbreak", "ü日本", "absent-value", "a b", "\"\"", "0", "1",
	"\x00", "a\x00b", "1\x002", "\x1f", "a,b", "a;b", "a|b", "$1", "\xff\xfe"}

// confusableArgs returns two argument lists that any "join with a separator" or plain
// concatenation maps to the same string: (x, y+sep+z) and (x+sep+y, z).
func confusableArgs(r *simrt.Rand, n int) ([]Arg, []Arg) {
	sep := []string{"", "\x00", ",", ";", "|", "\x1f", " "}[r.Intn(7)]
	x, y, z := []string{"1", "v0", "a"}[r.Intn(3)], []string{"2", "v1", "b"}[r.Intn(3)], []string{"zz", "3", "v2"}[r.Intn(3)]
	mk := func(vals ...string) []Arg {
		var out []Arg
		for i := 0; i < n; i++ {
			s := S(vals[i%len(vals)])
			if i >= len(vals) {
				s = S("pad")
			}
			out = append(out, Arg{S: &s})
		}
		return out
	}
	return mk(x, y+sep+z), mk(x+sep+y, z)
}

func genArgs(r *simrt.Rand, si *schemaInfo, n int) []Arg {
	var out []Arg
	for i := 0; i < n; i++ {
		if r.Chance(1, 5) {
			k := int64(r.Range(0, 12))
			out = append(out, Arg{I: &k})
			continue
		}
		var s S
		if len(si.cols) > 0 && r.Chance(2, 3) {
			c := si.cols[r.Intn(len(si.cols))]
			if vs := si.vals[c]; len(vs) > 0 {
				s = S(vs[r.Intn(len(vs))])
			}
		} else {
			s = S(argTexts11[r.Intn(len(argTexts11))])
		}
		out = append(out, Arg{S: &s})
	}
	return out
}

func genC11(c *Ctx) any {
	r := c.Rand("c11")
	cs := &C11Case{}
	cs.Data.Spec = GenDataSpec(c.Rand("data"), r.Range(1, 120), false)
	for i := range cs.Data.Spec.Cols {
		if cs.Data.Spec.Cols[i].Kind == "bin" {
			cs.Data.Spec.Cols[i].Kind = "mixed"
		}
	}
	si := infoOf(cs.Data.Spec.Expand())
	q := &Query{Expr: GenExpr(r, si, r.Range(0, 3), ExprOpts{MaxArity: 3})}
	if r.Chance(1, 2) {
		q.GroupBy = GenGroupBy(r, si, 2, false)
	}
	dq := genDrvQuery(r, q, []int{300, 600, 1000}[r.Intn(3)])
	deep := r.Chance(1, 150)
	if deep {
		// a long chain of NOTs in front: recursion limits. (The library computes cache keys in
		// time quadratic in the depth; 10 000 levels cost seconds outside a scheduled run and
		// are therefore only used there.)
		depth := []int{100, 1000, 10000, 10002}[r.Intn(4)]
		if cs.Data.Spec.Heavy() && depth > 1000 {
			depth = 1000 // every level hashes the operand's 64 KiB names again
		}
		text := string(dq.Text)
		gb := ""
		if i := strings.Index(text, " ; "); i >= 0 {
			text, gb = text[:i], text[i:]
		}
		dq.Text = S(strings.Repeat("^ ", depth) + "( " + text + " )" + gb)
	}
	cs.Text = dq.Text
	tree, _ := RefParse(string(cs.Text))
	maxPH := 0
	if tree != nil {
		pbToExpr(tree.Expr, nil, &maxPH)
	}
	conc := r.Chance(1, 3) && !deep
	for i, n := 0, r.Range(1, 8); i < n; i++ {
		na := maxPH
		if !conc {
			switch r.Intn(8) {
			case 0:
				na = maxPH - r.Range(1, 2) // too few
			case 1:
				na = maxPH + r.Range(1, 2) // too many
			}
		}
		if na < 0 {
			na = 0
		}
		ex := C11Exec{Args: genArgs(r, si, na), Via: []string{"stmt", "stmt", "direct", "replace"}[r.Intn(4)]}
		if i == 0 && r.Chance(1, 2) {
			ex.Args = dq.Args
		}
		if conc {
			ex.Via = "stmt"
		}
		cs.Execs = append(cs.Execs, ex)
	}
	if !conc && maxPH >= 2 && r.Chance(1, 4) {
		a, b := confusableArgs(r, maxPH)
		cs.Execs = append(cs.Execs, C11Exec{Args: a, Via: "stmt"}, C11Exec{Args: b, Via: "stmt"}, C11Exec{Args: a, Via: "stmt"})
	}
	if conc {
		cs.Tasks = r.Range(2, 3)
		cs.Sched = genSched(c.Rand("sched"), 2000)
	}
	return cs
}

func runC11(c *Ctx, body json.RawMessage) *Verdict {
	v := OK()
	var cs C11Case
	if err := json.Unmarshal(body, &cs); err != nil {
		return v.Harness("decode: %v", err)
	}
	v.CaseKey = hashJSON(&cs)
	rows := cs.Data.Expand()
	ref := NewRefIndex(rows)
	path := c.Path("stmt.updog")
	if _, err := BuildIndex("mem-file", path, rows); err != nil {
		return v.Harness("build: %v", err)
	}
	text := string(cs.Text)
	tree, _ := RefParse(text)
	maxPH := 0
	if tree != nil {
		pbToExpr(tree.Expr, nil, &maxPH)
	}
	v.StateKey = simrt.Hash3(uint64(maxPH), uint64(len(cs.Execs)), uint64(cs.Tasks))
	v.NonTrivial = maxPH >= 1 && len(cs.Execs) >= 2

	// direct binding: template untouched, result = literal substitution
	if tree != nil {
		parsed, err := queryparser.ParseQuery(text)
		if err == nil && parsed != nil {
			for ei, ex := range cs.Execs {
				if ex.Via != "replace" || len(ex.Args) < maxPH {
					continue
				}
				before := proto.Clone(parsed)
				vals := argTexts(ex.Args)
				var bound *pb.Query
				if p := guard(func() { bound = queryparser.ReplacePlaceholders(parsed, vals) }); p != "" {
					return v.Violate("panic", "ReplacePlaceholders panicked with %d values for highest placeholder $%d: %s", len(vals), maxPH, p)
				}
				if !proto.Equal(before, parsed) {
					return v.Violate("template-modified", "execution %d: ReplacePlaceholders changed the parsed query it was given: %s -> %s", ei, fmtQuery(before.(*pb.Query)), fmtQuery(parsed))
				}
				m := 0
				want := (&Query{Expr: pbToExpr(tree.Expr, ex.Args, &m)}).ToProto(0)
				want.GroupBy = tree.GroupBy
				if !proto.Equal(want, bound) {
					return v.Violate("wrong-binding", "execution %d: bound query is %s, want %s", ei, fmtQuery(bound), fmtQuery(want))
				}
				v.Count("direct_bindings_checked", 1)
			}
		}
	}

	check := func(ei int, ex C11Exec, o *sqlOut) *Verdict {
		w := wantFor(ref, DrvQuery{Text: cs.Text, Args: ex.Args})
		if sig, d := compareSQL(w, o); sig != "" {
			if sig == "wrong-rows" || sig == "error-expected" {
				sig = "binding-" + sig
			}
			return v.Violate(sig, "execution %d (%s) of %q with args %q: %s", ei, ex.Via, text, argTexts(ex.Args), d)
		}
		if w.MustErr && strings.Contains(w.Why, "arguments for highest") {
			v.Count("probe_too_few_arguments", 1)
		}
		return nil
	}

	if cs.Tasks > 0 {
		return runC11Concurrent(c, &cs, v, path, check)
	}
	db, err := sql.Open("updog", "file:"+path)
	if err != nil {
		return v.Harness("sql.Open: %v", err)
	}
	defer db.Close()
	var st *sql.Stmt
	for ei, ex := range cs.Execs {
		var o *sqlOut
		switch ex.Via {
		case "direct":
			o = runDB(db, DrvQuery{Text: cs.Text, Args: ex.Args})
		case "stmt":
			if st == nil {
				var perr error
				if p := guard(func() { st, perr = db.Prepare(text) }); p != "" {
					return v.Violate("panic", "Prepare panicked: %s", p)
				}
				if perr != nil {
					st = nil
					o = &sqlOut{Err: perr.Error()}
					break
				}
				defer st.Close()
			}
			o = &sqlOut{}
			if p := guard(func() { o = readRows(st.Query(anyArgs(ex.Args)...)) }); p != "" {
				o = &sqlOut{Panic: p}
			}
			v.Count("stmt_executions", 1)
		default:
			continue
		}
		if bad := check(ei, ex, o); bad != nil {
			return bad
		}
	}
	return v
}

func runC11Concurrent(c *Ctx, cs *C11Case, v *Verdict, path string, check func(int, C11Exec, *sqlOut) *Verdict) *Verdict {
	outs := make([]*sqlOut, len(cs.Execs))
	var res *simrt.Result
	var setupErr error
	c.Bubble(func() {
		db, err := sql.Open("updog", "file:"+path)
		if err != nil {
			setupErr = err
			return
		}
		defer db.Close()
		// at most one simultaneous pool waiter: database/sql hands a freed connection to a random waiter
		db.SetMaxOpenConns(cs.Tasks)
		st, err := db.Prepare(string(cs.Text))
		if err != nil {
			setupErr = fmt.Errorf("prepare: %w", err)
			return
		}
		defer st.Close()
		args := make([][]any, len(cs.Execs))
		for i, ex := range cs.Execs {
			args[i] = anyArgs(ex.Args)
			outs[i] = &sqlOut{}
		}
		fns := make([]func(), cs.Tasks)
		for t := 0; t < cs.Tasks; t++ {
			t := t
			fns[t] = func() {
				for i := t; i < len(cs.Execs); i += cs.Tasks {
					i := i
					if p := guard(func() { outs[i] = readRows(st.Query(args[i]...)) }); p != "" {
						outs[i] = &sqlOut{Panic: p}
					}
				}
			}
		}
		res = simrt.Run(cs.Sched.Config(c), fns)
	})
	if setupErr != nil {
		if tree, _ := RefParse(string(cs.Text)); tree == nil {
			return Invalid("query text does not parse")
		}
		return v.Harness("setup: %v", setupErr)
	}
	if res == nil {
		return v.Harness("simulation did not run")
	}
	applySim(v, res)
	if res.Hang || res.Deadlock {
		v.Fatal = true
		return v.Violate("hang", "statement executions never finished\n%s", trimStacks(res.Stacks))
	}
	for _, p := range res.Panics {
		return v.Violate("panic", "task %d panicked: %s\n%s", p.Task, p.Value, p.Stack)
	}
	for i, ex := range cs.Execs {
		if bad := check(i, ex, outs[i]); bad != nil {
			return bad
		}
	}
	v.Count("concurrent_stmt_runs", 1)
	return v
}
