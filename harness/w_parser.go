package verifsim

// C09 — the query parser is total and accepts exactly the documented grammar.
// Each ParseQuery call runs on its own goroutine inside a synctest bubble: "has not returned
// at quiescence" is a deadlock between parser and lexer, "more goroutines than before at
// quiescence" is a goroutine left behind. No sleeps, no timeouts.

import (
	"encoding/json"
	"math"
	"runtime"
	"strings"
	"testing/synctest"

	"github.com/akrennmair/updog/internal/queryparser"
	pb "github.com/akrennmair/updog/proto/updog/v1"
	"google.golang.org/protobuf/proto"
	"verif/simrt"
)

type C09Case struct {
	Inputs []S `json:"inputs"`
}

func init() {
	register("C09", &World{Gen: genC09, Run: runC09})
}

// ---------------------------------------------------------------- RefParser

type tok struct {
	kind string // ( ) & | ^ = , ; field value ph eof bad
	text string
}

func isLetter(b byte) bool { return (b >= 'a' && b <= 'z') || (b >= 'A' && b <= 'Z') }
func isDigit(b byte) bool  { return b >= '0' && b <= '9' }

// refLex tokenises per the lexical conventions of the documented grammar: fields are
// identifiers ([A-Za-z][A-Za-z0-9_]*), values are double-quoted with "" as an escaped
// quote, placeholders are '$' digits, blanks are space, tab, CR, LF.
func refLex(in string) []tok {
	var out []tok
	i := 0
	for i < len(in) {
		b := in[i]
		switch {
		case b == ' ' || b == '\t' || b == '\n' || b == '\r':
			i++
		case strings.IndexByte("()&|^=,;", b) >= 0:
			out = append(out, tok{string(b), string(b)})
			i++
		case isLetter(b):
			j := i + 1
			for j < len(in) && (isLetter(in[j]) || isDigit(in[j]) || in[j] == '_') {
				j++
			}
			out = append(out, tok{"field", in[i:j]})
			i = j
		case b == '$':
			j := i + 1
			for j < len(in) && isDigit(in[j]) {
				j++
			}
			out = append(out, tok{"ph", in[i+1 : j]})
			i = j
		case b == '"':
			j := i + 1
			var sb strings.Builder
			closed := false
			for j < len(in) {
				if in[j] == '"' {
					if j+1 < len(in) && in[j+1] == '"' {
						sb.WriteByte('"')
						j += 2
						continue
					}
					closed = true
					j++
					break
				}
				sb.WriteByte(in[j])
				j++
			}
			if !closed {
				return append(out, tok{"bad", "unterminated string"})
			}
			out = append(out, tok{"value", sb.String()})
			i = j
		default:
			return append(out, tok{"bad", "unknown character"})
		}
	}
	return append(out, tok{"eof", ""})
}

type refParser struct {
	toks []tok
	pos  int
	err  string
}

func (p *refParser) peek() tok { return p.toks[p.pos] }
func (p *refParser) next() tok {
	t := p.toks[p.pos]
	if p.pos < len(p.toks)-1 {
		p.pos++
	}
	return t
}
func (p *refParser) fail(s string) {
	if p.err == "" {
		p.err = s
	}
}

func (p *refParser) simple() *pb.Query_Expression {
	if p.err != "" {
		return nil
	}
	switch p.peek().kind {
	case "(":
		p.next()
		e := p.expr()
		if p.peek().kind != ")" {
			p.fail("expected )")
			return nil
		}
		p.next()
		return e
	case "^":
		p.next()
		e := p.simple()
		return &pb.Query_Expression{Value: &pb.Query_Expression_Not_{Not: &pb.Query_Expression_Not{Expr: e}}}
	case "field":
		col := p.next().text
		if p.peek().kind != "=" {
			p.fail("expected =")
			return nil
		}
		p.next()
		eq := &pb.Query_Expression_Equal{Column: col}
		switch t := p.next(); t.kind {
		case "value":
			eq.Value = t.text
		case "ph":
			// numbered from 1 and representable (int32 on the wire)
			n := uint64(0)
			if t.text == "" {
				p.fail("placeholder without number")
				return nil
			}
			for _, d := range []byte(t.text) {
				n = n*10 + uint64(d-'0')
				if n > math.MaxInt32 {
					p.fail("placeholder not representable")
					return nil
				}
			}
			if n < 1 {
				p.fail("placeholder 0")
				return nil
			}
			eq.Placeholder = int32(n)
		default:
			p.fail("expected value or placeholder")
			return nil
		}
		return &pb.Query_Expression{Value: &pb.Query_Expression_Eq{Eq: eq}}
	}
	p.fail("unexpected token")
	return nil
}

func (p *refParser) expr() *pb.Query_Expression {
	first := p.simple()
	if p.err != "" {
		return nil
	}
	op := p.peek().kind
	if op != "&" && op != "|" {
		return first
	}
	list := []*pb.Query_Expression{first}
	for p.peek().kind == op {
		p.next()
		e := p.simple()
		if p.err != "" {
			return nil
		}
		list = append(list, e)
	}
	if op == "&" {
		return &pb.Query_Expression{Value: &pb.Query_Expression_And_{And: &pb.Query_Expression_And{Exprs: list}}}
	}
	return &pb.Query_Expression{Value: &pb.Query_Expression_Or_{Or: &pb.Query_Expression_Or{Exprs: list}}}
}

// RefParse returns the tree the grammar prescribes, or nil and the reason.
func RefParse(in string) (*pb.Query, string) {
	toks := refLex(in)
	if toks[len(toks)-1].kind == "bad" {
		// a lexical error anywhere makes the input no sentence
		return nil, toks[len(toks)-1].text
	}
	p := &refParser{toks: toks}
	e := p.expr()
	if p.err != "" {
		return nil, p.err
	}
	q := &pb.Query{Expr: e}
	if p.peek().kind == ";" {
		p.next()
		if p.peek().kind != "field" {
			return nil, "expected field"
		}
		q.GroupBy = append(q.GroupBy, p.next().text)
		for p.peek().kind == "," {
			p.next()
			if p.peek().kind != "field" {
				return nil, "expected field"
			}
			q.GroupBy = append(q.GroupBy, p.next().text)
		}
	}
	if p.peek().kind != "eof" {
		return nil, "trailing input"
	}
	return q, ""
}

// ---------------------------------------------------------------- generation

var fieldNames = []string{"a", "b", "foo", "Bar", "x_1", "col7", "A_b_C", "z9"}

// not identifiers: letters outside ASCII, among them the code points whose case mapping lands
// in ASCII (U+212A KELVIN SIGN, U+0130, U+017F LONG S, U+0131 DOTLESS I), digits and '_' first
var nonFields = []string{"\u212a", "\u0130d", "a\u212a", "\u017f", "\u0131", "é", "ß", "日", "ｋ", "_a", "9a", "a-b", "a.b", "\u00a0a"}
var valueTexts = []string{"", "1", "bar", "foo\"bar", "\"", "\"\"", "a b", "line\nbreak", "ü日本", "tab\t", "x,y;z", "(&|^=)", "$1", "\xff\xfe", "\x00"}
var placeholders = []string{"$1", "$2", "$3", "$10", "$007", "$2147483647", "$0", "$00", "$", "$2147483648", "$4294967297", "$99999999999999999999999999", "$-1", "$1a"}

func quote(s string) string { return `"` + strings.ReplaceAll(s, `"`, `""`) + `"` }

// genTokens derives a sentence of the grammar as a token list.
func genTokens(r *simrt.Rand, depth int, validPH bool) []string {
	var simple func(d int) []string
	var expr func(d int) []string
	simple = func(d int) []string {
		switch {
		case d > 0 && r.Chance(1, 4):
			return append(append([]string{"("}, expr(d-1)...), ")")
		case d > 0 && r.Chance(1, 4):
			return append([]string{"^"}, simple(d-1)...)
		default:
			rhs := quote(valueTexts[r.Intn(len(valueTexts))])
			if r.Chance(1, 4) {
				if validPH {
					rhs = placeholders[r.Intn(6)]
				} else {
					rhs = placeholders[r.Intn(len(placeholders))]
				}
			}
			name := fieldNames[r.Intn(len(fieldNames))]
			if !validPH && r.Chance(1, 6) {
				name = nonFields[r.Intn(len(nonFields))]
			}
			return []string{name, "=", rhs}
		}
	}
	expr = func(d int) []string {
		out := simple(d)
		if r.Chance(1, 2) {
			op := []string{"&", "|"}[r.Intn(2)]
			for i, n := 0, r.Range(1, 5); i < n; i++ {
				out = append(out, op)
				out = append(out, simple(d)...)
			}
		}
		return out
	}
	out := expr(depth)
	if r.Chance(1, 3) {
		out = append(out, ";", fieldNames[r.Intn(len(fieldNames))])
		for r.Chance(1, 2) {
			out = append(out, ",", fieldNames[r.Intn(len(fieldNames))])
		}
	}
	return out
}

func joinTokens(r *simrt.Rand, toks []string) string {
	var sb strings.Builder
	seps := []string{" ", " ", "", "  ", "\n", "\t", " \r\n "}
	for i, t := range toks {
		if i > 0 {
			s := seps[r.Intn(len(seps))]
			// two adjacent identifier-like tokens need a blank to stay two tokens
			if s == "" && len(t) > 0 && len(toks[i-1]) > 0 {
				a, b := toks[i-1][len(toks[i-1])-1], t[0]
				if (isLetter(a) || isDigit(a) || a == '_' || a == '"') && (isLetter(b) || isDigit(b) || b == '_' || b == '"') {
					s = " "
				}
			}
			sb.WriteString(s)
		}
		sb.WriteString(t)
	}
	return sb.String()
}

func mutateTokens(r *simrt.Rand, toks []string) []string {
	t := append([]string(nil), toks...)
	extra := []string{"(", ")", "&", "|", "^", "=", ",", ";", "foo", quote("v"), "$1", "\"open", "#", "é", "\u212a", "\u0130", "\f", "\v", "\u00a0", "\u2028", "\ufeff"}
	for i, n := 0, r.Range(1, 2); i < n && len(t) > 0; i++ {
		k := r.Intn(len(t))
		switch r.Intn(5) {
		case 0: // drop
			t = append(t[:k], t[k+1:]...)
		case 1: // duplicate
			t = append(t[:k+1], append([]string{t[k]}, t[k+1:]...)...)
		case 2: // swap
			j := r.Intn(len(t))
			t[k], t[j] = t[j], t[k]
		case 3: // insert
			t = append(t[:k], append([]string{extra[r.Intn(len(extra))]}, t[k:]...)...)
		default: // trailing token(s)
			t = append(t, extra[r.Intn(len(extra))])
			if r.Chance(1, 2) {
				t = append(t, genTokens(r, 0, true)...)
			}
		}
	}
	return t
}

func genC09(c *Ctx) any {
	r := c.Rand("c09")
	rl := c.Rand("c09-layout")
	cs := &C09Case{}
	n := 120
	maxDepth := 6
	if c.Thorough() {
		maxDepth = 40
	}
	raw := []byte(" \t\n()&|^=,;\"$019azAZ_\xff\xc3\xa9#\x00!\f\v\xe2\x84\xaa\xc4\xb0")
	for i := 0; i < n; i++ {
		var in string
		switch r.Intn(10) {
		case 0, 1, 2:
			in = joinTokens(r, genTokens(r, r.Range(0, 4), true))
		case 3:
			d := r.Range(4, maxDepth)
			in = joinTokens(r, genTokens(r, d, true))
			if len(in) > 65536 {
				in = in[:65536]
			}
		case 4:
			in = joinTokens(r, genTokens(r, r.Range(0, 3), false))
		case 5, 6, 7:
			in = joinTokens(r, mutateTokens(r, genTokens(r, r.Range(0, 3), true)))
		case 8:
			if i == 0 && r.Chance(1, 12) {
				// one very long chain per few cases: thousands of operands (counters, buffers, limits)
				n := []int{1000, 4095, 4096, 4097, 5000, 10000}[r.Intn(6)]
				op := []string{" & ", "|", " |\n"}[r.Intn(3)]
				var sb strings.Builder
				for k := 0; k < n; k++ {
					if k > 0 {
						sb.WriteString(op)
					}
					sb.WriteString(fieldNames[k%len(fieldNames)] + `="1"`)
				}
				in = sb.String()
				break
			}
			// mixed & and | without parentheses, or a trailing expression after a complete one
			a, b := genTokens(r, 1, true), genTokens(r, 0, true)
			in = joinTokens(r, append(append(a, []string{"&", "|", ")", "", " "}[r.Intn(5)]), b...))
		default:
			bs := make([]byte, r.Range(0, 24))
			for k := range bs {
				bs[k] = raw[r.Intn(len(raw))]
			}
			in = string(bs)
		}
		cs.Inputs = append(cs.Inputs, S(in))
		// layout variants of the input just parsed, in the same process right after it: anything that remembers
		// a parse under a key coarser than the text (squeezed or trimmed white space, case) answers the second
		// text with the first one's tree, or accepts a non-sentence because its neighbour was a sentence
		if rl.Chance(1, 4) && len(in) < 4096 {
			ws := []string{"\v", "\f", "\u0085", "\u00a0", "\u2028", " ", "\t", "\n", "\r", "\x00"}
			var alt string
			switch rl.Intn(6) {
			case 0:
				alt = strings.ReplaceAll(in, " ", "  ")
			case 1:
				alt = strings.ReplaceAll(in, " ", ws[rl.Intn(len(ws))])
			case 2:
				alt = in + ws[rl.Intn(len(ws))]
			case 3:
				alt = ws[rl.Intn(len(ws))] + in
			case 4:
				alt = in // the same text again: the answer must not depend on having been asked before
			default:
				alt = strings.ReplaceAll(in, "  ", " ")
				if alt == in {
					alt = strings.ToUpper(in)
				}
			}
			cs.Inputs = append(cs.Inputs, S(alt))
		}
	}
	return cs
}

type parseOut struct {
	q       *pb.Query
	err     error
	panicky string
	done    bool
}

//go:norace
func (o *parseOut) finish(q *pb.Query, err error, p string) { o.q, o.err, o.panicky, o.done = q, err, p, true }

//go:norace
func (o *parseOut) isDone() bool { return o.done }

func runC09(c *Ctx, body json.RawMessage) *Verdict {
	v := OK()
	var cs C09Case
	if err := json.Unmarshal(body, &cs); err != nil {
		return v.Harness("decode: %v", err)
	}
	v.CaseKey = hashJSON(&cs)
	accepted, rejected, tokens3 := 0, 0, 0
	var bad *Verdict
	panicText := c.Bubble(func() {
		for i, in := range cs.Inputs {
			s := string(in)
			out := &parseOut{}
			synctest.Wait()
			before := runtime.NumGoroutine()
			go func() {
				var q *pb.Query
				var err error
				p := guard(func() { q, err = queryparser.ParseQuery(s) })
				out.finish(q, err, p)
			}()
			synctest.Wait()
			if !out.isDone() {
				bad = v.Violate("parser-hang", "ParseQuery(%q) has not returned although every goroutine is blocked (input %d)\n%s", s, i, trimStacks(allStacksText()))
				return
			}
			if out.panicky != "" {
				bad = v.Violate("panic", "ParseQuery(%q) panicked: %s", s, out.panicky)
				return
			}
			want, why := RefParse(s)
			if len(refLex(s)) >= 4 {
				tokens3++
			}
			switch {
			case want != nil && (out.err != nil || out.q == nil):
				bad = v.Violate("rejects-sentence", "ParseQuery(%q) failed (%v) but the input is a sentence of the grammar", s, out.err)
				return
			case want == nil && (out.err == nil || out.q != nil):
				bad = v.Violate("accepts-non-sentence", "ParseQuery(%q) returned a query (err=%v) but the input is not a sentence of the grammar: %s; parsed as %s", s, out.err, why, fmtQuery(out.q))
				return
			case want != nil && !proto.Equal(want, out.q):
				bad = v.Violate("wrong-tree", "ParseQuery(%q) = %s, the grammar prescribes %s", s, fmtQuery(out.q), fmtQuery(want))
				return
			}
			if want != nil {
				accepted++
			} else {
				rejected++
			}
			if after := runtime.NumGoroutine(); after > before {
				// the process-wide count is only a cheap trigger (runtime helpers may start at
				// any time); the verdict is the census of goroutines inside this bubble, which
				// at quiescence must be the loop's own goroutine and nothing else
				if left := bubbleGoroutines(); len(left) > 1 {
					bad = v.Violate("goroutine-leak", "ParseQuery(%q) left %d goroutine(s) behind (accepted=%v)\n%s", s, len(left)-1, want != nil, strings.Join(left[1:], "\n\n"))
					return
				}
				v.Count("census_false_triggers", 1)
			}
		}
	})
	if bad != nil {
		return bad
	}
	if panicText != "" {
		return v.Violate("goroutine-leak", "bubble ended with blocked goroutines: %s", panicText)
	}
	v.Count("inputs", int64(len(cs.Inputs)))
	v.Count("accepted", int64(accepted))
	v.Count("rejected", int64(rejected))
	v.Count("inputs_with_3plus_tokens", int64(tokens3))
	v.NonTrivial = tokens3 >= 1
	v.StateKey = simrt.Hash3(uint64(accepted), uint64(rejected), uint64(tokens3))
	return v
}

func fmtQuery(q *pb.Query) string {
	if q == nil {
		return "<nil>"
	}
	b, _ := json.Marshal(q)
	if len(b) > 600 {
		return string(b[:600]) + "…"
	}
	return string(b)
}

func allStacksText() string {
	buf := make([]byte, 1<<18)
	return string(buf[:runtime.Stack(buf, true)])
}

// bubbleGoroutines returns the stacks of all goroutines that belong to a synctest bubble,
// the calling (running) one first.
func bubbleGoroutines() []string {
	var self, others []string
	for _, g := range strings.Split(allStacksText(), "\n\n") {
		head, _, _ := strings.Cut(g, "\n")
		if !strings.Contains(head, "synctest bubble") {
			continue
		}
		if strings.Contains(g, "internal/synctest.Run(") || strings.Contains(g, "synctest.testingSynctestTest(") {
			continue // the bubble's own plumbing
		}
		if strings.Contains(head, "[running") {
			self = append(self, g)
		} else {
			others = append(others, g)
		}
	}
	for i := range others {
		if len(others[i]) > 1500 {
			others[i] = others[i][:1500]
		}
	}
	return append(self, others...)
}

func lexerStacks() string {
	var out []string
	for _, g := range strings.Split(allStacksText(), "\n\n") {
		if strings.Contains(g, "queryparser.(*lexer)") {
			out = append(out, g)
		}
	}
	if len(out) > 2 {
		out = out[:2]
	}
	return strings.Join(out, "\n\n")
}
