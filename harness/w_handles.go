package verifsim

// C17 — sql driver handles survive any open/close/concurrent-use sequence.
// Histories are lists of phases; a phase is a set of tasks run under the seeded scheduler
// inside a synctest bubble (fake clock: connection idle-time expiry and bbolt's flock retry
// loop cost microseconds; a task stuck in that loop for 10 simulated minutes is a hang).

import (
	"context"
	"database/sql"
	"encoding/json"
	"fmt"
	"os"
	"path/filepath"
	"strings"
	"testing/synctest"
	"time"

	"verif/simrt"
)

type HOp struct {
	Kind string   `json:"kind"` // open | close | query | maxopen | maxidle | idletime | sleep | hide | unhide (move the file away / back) | replace (rebuild the file from the alternative dataset, same row count) | queryctx (query with cancellable context N) | cancel (cancel context N)
	H    int      `json:"h"`
	File int      `json:"file,omitempty"`
	Opts string   `json:"opts,omitempty"`
	Q    DrvQuery `json:"q,omitempty"`
	N    int      `json:"n,omitempty"` // maxopen/maxidle: count; idletime/sleep: seconds
	Sp   int      `json:"sp,omitempty"` // open: spelling of the file's path in the DSN (0 clean, 1 dir/./f, 2 dir//f, 3 dir/x/../f)
}

type HPhase struct {
	Tasks [][]HOp `json:"tasks"`
}

type C17Case struct {
	Datas  []Dataset `json:"datas"`
	Alts   []Dataset `json:"alts,omitempty"` // alternative content per file for the replace op (same row count and columns, other rows)
	Phases []HPhase  `json:"phases"`
	Sched  SchedCfg  `json:"sched"`
}

func init() {
	register("C17", &World{Gen: genC17, Run: runC17, Races: true})
}

var handleOpts = []string{"", "", "preload=true", "lrucache=true&lrucachesize=100000"}

func genC17(c *Ctx) any {
	r := c.Rand("c17")
	cs := &C17Case{Sched: genSched(c.Rand("sched"), 1500)}
	nf := r.Range(1, 2)
	if r.Chance(1, 6) {
		nf = 3
	}
	var sis []*schemaInfo
	for i := 0; i < nf; i++ {
		sp := GenDataSpec(c.Rand(fmt.Sprint("data", i)), r.Range(1, 60), false)
		for k := range sp.Cols {
			if sp.Cols[k].Kind == "bin" {
				sp.Cols[k].Kind = "num"
			}
		}
		cs.Datas = append(cs.Datas, Dataset{Spec: sp})
		sis = append(sis, infoOf(sp.Expand()))
		alt := *sp
		alt.Seed = r.U64() | 1
		alt.Cols = append([]ColSpec(nil), sp.Cols...)
		for k := range alt.Cols {
			alt.Cols[k].Card += 3 // other (more) values, same number of rows
		}
		cs.Alts = append(cs.Alts, Dataset{Spec: &alt})
	}
	maxTasks := 6
	if c.Thorough() {
		maxTasks = 16
	}
	type hstate struct {
		open bool
		file int
	}
	var hs []hstate
	query := func(h int) HOp {
		si := sis[hs[h].file]
		q := &Query{Expr: GenExpr(r, si, r.Range(0, 2), ExprOpts{MaxArity: 2})}
		if r.Chance(1, 2) {
			q.GroupBy = GenGroupBy(r, si, 2, false)
		}
		dq := genDrvQuery(r, q, []int{0, 500}[r.Intn(2)])
		if r.Chance(1, 3) {
			dq.Via = "stmt"
		}
		return HOp{Kind: "query", H: h, Q: dq}
	}
	openHandles := func() []int {
		var out []int
		for i, h := range hs {
			if h.open {
				out = append(out, i)
			}
		}
		return out
	}
	nphases := r.Range(2, 7)
	for p := 0; p < nphases; p++ {
		oh := openHandles()
		if len(oh) > 0 && r.Chance(1, 3) {
			// concurrent use of one handle (often a fresh one) by many tasks
			h := oh[len(oh)-1]
			if r.Chance(1, 3) {
				h = oh[r.Intn(len(oh))]
			}
			nt := r.Range(2, 4)
			if r.Chance(1, 4) {
				nt = r.Range(2, maxTasks)
			}
			var ph HPhase
			// keep at most one simultaneous pool waiter
			pre := []HOp{{Kind: "maxopen", H: h, N: nt - r.Intn(2)}}
			// connection churn: with no idle connections kept, every query opens a driver
			// connection and closes it again, so last-reference closes and first opens of one
			// cache key interleave across tasks
			churn := r.Chance(1, 2)
			if churn {
				pre = append(pre, HOp{Kind: "maxidle", H: h, N: 0})
			}
			// a second handle on the same file (same or other options) used by half of the tasks
			h2 := -1
			if r.Chance(1, 3) {
				opts := handleOpts[r.Intn(len(handleOpts))]
				hs = append(hs, hstate{open: true, file: hs[h].file})
				h2 = len(hs) - 1
				pre = append(pre, HOp{Kind: "open", H: h2, File: hs[h].file, Opts: opts}, HOp{Kind: "maxopen", H: h2, N: nt})
				if churn {
					pre = append(pre, HOp{Kind: "maxidle", H: h2, N: 0})
				}
			}
			ph.Tasks = append(ph.Tasks, pre)
			cs.Phases = append(cs.Phases, ph)
			ph = HPhase{}
			for t := 0; t < nt; t++ {
				var ops []HOp
				hh := h
				if h2 >= 0 && t%2 == 1 {
					hh = h2
				}
				for i, n := 0, r.Range(1, 3); i < n; i++ {
					// direct queries only: closing a prepared statement takes database/sql's
					// per-connection mutex of every connection it was prepared on, which a parked
					// task may hold (a real mutex the simulator cannot see); shared statements
					// under concurrency are C11's business
					q := query(hh)
					q.Q.Via = ""
					ops = append(ops, q)
				}
				ph.Tasks = append(ph.Tasks, ops)
			}
			cs.Phases = append(cs.Phases, ph)
			continue
		}
		// a sequential stretch of history
		var ops []HOp
		for i, n := 0, r.Range(1, 6); i < n; i++ {
			oh = openHandles()
			switch k := r.Intn(15); {
			case k == 13:
				// the index file is rebuilt (other rows, same row count) while nobody has it open
				f := r.Intn(nf)
				busy := false
				for _, h := range hs {
					if h.open && h.file == f {
						busy = true
					}
				}
				if busy {
					continue
				}
				ops = append(ops, HOp{Kind: "replace", File: f})
			case k == 14:
				// a query whose context is cancelled while the driver is working on it (the cancel
				// fires after a seeded number of statements of the code under test), then the
				// handle is used again and often closed
				if len(oh) == 0 {
					continue
				}
				h := oh[r.Intn(len(oh))]
				q := query(h)
				q.Q.Via = ""
				ops = append(ops, HOp{Kind: "queryctx", H: h, Q: q.Q, N: r.Range(1, 160)})
				if r.Chance(1, 2) {
					ops = append(ops, query(h))
				}
				if r.Chance(2, 3) {
					ops = append(ops, HOp{Kind: "close", H: h})
					hs[h].open = false
				}
			case k == 12:
				// a file that is missing at first use: the open fails, later the file is there
				f := r.Intn(nf)
				busy := false
				for _, h := range hs {
					if h.open && h.file == f {
						busy = true
					}
				}
				if busy {
					continue
				}
				opts := handleOpts[r.Intn(len(handleOpts))]
				hs = append(hs, hstate{open: true, file: f})
				h := len(hs) - 1
				ops = append(ops, HOp{Kind: "hide", File: f}, HOp{Kind: "open", H: h, File: f, Opts: opts}, query(h))
				if r.Chance(1, 2) {
					ops = append(ops, query(h))
				}
				ops = append(ops, HOp{Kind: "unhide", File: f}, query(h))
				if r.Chance(1, 2) {
					hs[h].open = false
					ops = append(ops, HOp{Kind: "close", H: h})
				}
			case len(oh) == 0 || k < 3:
				f := r.Intn(nf)
				opts := handleOpts[r.Intn(len(handleOpts))]
				hs = append(hs, hstate{open: true, file: f})
				sp := 0
				if r.Chance(1, 4) {
					sp = r.Range(1, 3) // another spelling of the same path
				}
				ops = append(ops, HOp{Kind: "open", H: len(hs) - 1, File: f, Opts: opts, Sp: sp})
				if r.Chance(2, 3) {
					ops = append(ops, query(len(hs)-1))
				}
			case k < 6:
				h := oh[r.Intn(len(oh))]
				hs[h].open = false
				ops = append(ops, HOp{Kind: "close", H: h})
			case k < 9:
				ops = append(ops, query(oh[r.Intn(len(oh))]))
			case k == 9:
				ops = append(ops, HOp{Kind: "maxidle", H: oh[r.Intn(len(oh))], N: r.Intn(3)})
			case k == 10:
				h := oh[r.Intn(len(oh))]
				ops = append(ops, HOp{Kind: "idletime", H: h, N: r.Range(1, 60)}, query(h), HOp{Kind: "sleep", N: r.Range(30, 240)}, query(h))
			default:
				ops = append(ops, HOp{Kind: "maxopen", H: oh[r.Intn(len(oh))], N: r.Range(1, 4)})
			}
		}
		if len(ops) > 0 {
			cs.Phases = append(cs.Phases, HPhase{Tasks: [][]HOp{ops}})
		}
	}
	return cs
}

func runC17(c *Ctx, body json.RawMessage) *Verdict {
	v := OK()
	var cs C17Case
	if err := json.Unmarshal(body, &cs); err != nil {
		return v.Harness("decode: %v", err)
	}
	v.CaseKey = hashJSON(&cs)
	if len(cs.Datas) == 0 {
		return Invalid("no files")
	}
	// model of the history; also validates shrunk cases
	type hm struct {
		open bool
		file int
	}
	handles := map[int]*hm{}
	nh := 0
	reopenAfterLastClose, concFirstUse := false, false
	everClosedAll := map[int]bool{}
	used := map[int]bool{}
	hidden := map[int]bool{}
	mustFail := map[[3]int]bool{} // (phase, task, op) of queries issued while the file is missing
	altAt := map[[3]int]bool{}    // queries issued while the file holds the alternative content
	isAlt := map[int]bool{}
	for pi, ph := range cs.Phases {
		if len(ph.Tasks) == 0 {
			return Invalid("empty phase")
		}
		for ti, ops := range ph.Tasks {
			for oi, op := range ops {
				if op.Kind == "sleep" || op.Kind == "cancel" {
					continue
				}
				if op.Kind == "replace" {
					if len(ph.Tasks) > 1 || op.File < 0 || op.File >= len(cs.Datas) || op.File >= len(cs.Alts) || hidden[op.File] {
						return Invalid("bad replace")
					}
					for _, o := range handles {
						if o.open && o.file == op.File {
							return Invalid("replace while a handle is open")
						}
					}
					isAlt[op.File] = !isAlt[op.File]
					v.Count("fault_file_replaced_between_close_and_reopen", 1)
					continue
				}
				if (op.Kind == "query" || op.Kind == "queryctx") && handles[op.H] != nil && isAlt[handles[op.H].file] {
					altAt[[3]int{pi, ti, oi}] = true
				}
				if op.Kind == "hide" || op.Kind == "unhide" {
					if len(ph.Tasks) > 1 || op.File < 0 || op.File >= len(cs.Datas) || hidden[op.File] == (op.Kind == "hide") {
						return Invalid("bad hide/unhide")
					}
					for _, o := range handles {
						if o.open && o.file == op.File && op.Kind == "hide" {
							return Invalid("hide while a handle is open")
						}
					}
					hidden[op.File] = op.Kind == "hide"
					if op.Kind == "hide" {
						v.Count("fault_file_missing_at_first_use", 1)
					}
					continue
				}
				if (op.Kind == "query" || op.Kind == "queryctx") && handles[op.H] != nil && hidden[handles[op.H].file] {
					mustFail[[3]int{pi, ti, oi}] = true
				}
				if op.Kind == "open" {
					if len(ph.Tasks) > 1 || handles[op.H] != nil || op.File < 0 || op.File >= len(cs.Datas) {
						return Invalid("bad open")
					}
					handles[op.H] = &hm{open: true, file: op.File}
					if op.H >= nh {
						nh = op.H + 1
					}
					if everClosedAll[op.File] {
						reopenAfterLastClose = true
					}
					continue
				}
				h := handles[op.H]
				if h == nil || !h.open {
					return Invalid("operation on a handle that is not open")
				}
				if op.Kind == "close" {
					if len(ph.Tasks) > 1 {
						// allowed only when no other task of the phase touches this handle
						for tj, other := range ph.Tasks {
							if tj == ti {
								continue
							}
							for _, oo := range other {
								if oo.Kind != "cancel" && oo.Kind != "sleep" && oo.H == op.H {
									return Invalid("close while another task of the phase uses the handle")
								}
							}
						}
					}
					h.open = false
					left := 0
					for _, o := range handles {
						if o.open && o.file == h.file {
							left++
						}
					}
					if left == 0 {
						everClosedAll[h.file] = true
					}
				}
				if op.Kind == "query" || op.Kind == "queryctx" {
					if len(ph.Tasks) > 1 && !used[op.H] {
						concFirstUse = true
					}
				}
			}
		}
		for _, ops := range ph.Tasks {
			for _, op := range ops {
				if op.Kind == "query" || op.Kind == "queryctx" {
					used[op.H] = true
				}
			}
		}
	}
	for f, h := range hidden {
		if h {
			_ = f
			return Invalid("history ends with a hidden file")
		}
	}
	v.NonTrivial = reopenAfterLastClose || concFirstUse
	if reopenAfterLastClose {
		v.Count("probe_reopen_after_last_close", 1)
	}
	if concFirstUse {
		v.Count("probe_concurrent_first_use", 1)
	}

	var refs, altRefs []*RefIndex
	var altRows [][]Row
	var paths []string
	for i := range cs.Datas {
		if i < len(cs.Alts) {
			ar := cs.Alts[i].Expand()
			altRows = append(altRows, ar)
			altRefs = append(altRefs, NewRefIndex(ar))
		}
	}
	replaced := make([]bool, len(cs.Datas))
	for i, d := range cs.Datas {
		rows := d.Expand()
		refs = append(refs, NewRefIndex(rows))
		p := c.Path(fmt.Sprintf("h%d.updog", i))
		if _, err := BuildIndex("mem-file", p, rows); err != nil {
			return v.Harness("build: %v", err)
		}
		_ = os.MkdirAll(filepath.Join(filepath.Dir(p), filepath.Base(filepath.Dir(p))), 0o755) // for spelling 3
		paths = append(paths, p)
	}
	dbs := make([]*sql.DB, nh)
	fileOf := make([]int, nh)
	isOpen := make([]bool, nh)
	var bad *Verdict
	hung := false
	cfg := cs.Sched.Config(c)
	var traces []simrt.Trace
	leftover := ""
	panicText := c.Bubble(func() {
		defer func() {
			if hung {
				return // cannot unwind: a goroutine may spin on a file lock forever
			}
			for h, db := range dbs {
				if db != nil && isOpen[h] {
					_ = guard(func() { db.Close() })
				}
			}
			// database/sql's own goroutines (connection cleaner, opener) are no tasks of the scheduler: one may
			// still be backing off on a simulated lock the closing goroutine held a moment ago. Let simulated
			// time pass until the bubble is empty; what remains after 10 simulated seconds is a leak.
			for i := 0; i < 100; i++ {
				synctest.Wait()
				left := bubbleGoroutines()
				if len(left) <= 1 {
					leftover = ""
					break
				}
				leftover = strings.Join(left[1:], "\n\n")
				time.Sleep(100 * time.Millisecond)
			}
		}()
		for pi, ph := range cs.Phases {
			type out struct {
				o *sqlOut
				p string
			}
			outs := make([][]out, len(ph.Tasks))
			fns := make([]func(), len(ph.Tasks))
			for t := range ph.Tasks {
				t := t
				outs[t] = make([]out, len(ph.Tasks[t]))
				fns[t] = func() {
					for i, op := range ph.Tasks[t] {
						o := &outs[t][i]
						o.p = guard(func() {
							switch op.Kind {
							case "open":
								dsn := "file:" + spellPath(paths[op.File], op.Sp)
								if op.Opts != "" {
									dsn += "?" + op.Opts
								}
								db, err := sql.Open("updog", dsn)
								if err != nil {
									o.o = &sqlOut{Err: err.Error()}
									return
								}
								dbs[op.H], fileOf[op.H], isOpen[op.H] = db, op.File, true
							case "close":
								if err := dbs[op.H].Close(); err != nil {
									o.o = &sqlOut{Err: err.Error()}
								}
								isOpen[op.H] = false
							case "query":
								o.o = runDB(dbs[op.H], op.Q)
							case "queryctx":
								o.o = &sqlOut{}
								ctx, cancel := context.WithCancel(context.Background())
								if p := guard(func() {
									simrt.ArmHook(int64(op.N), cancel)
									rows, err := dbs[op.H].QueryContext(ctx, string(op.Q.Text), anyArgs(op.Q.Args)...)
									simrt.DisarmHook() // the cancel only ever fires inside the driver call
									if ctx.Err() != nil {
										// database/sql's watcher goroutine is closing the rows right now; it takes
										// Rows.closemu, a real mutex: let it finish before touching the rows
										time.Sleep(time.Millisecond)
									}
									o.o = readRows(rows, err)
								}); p != "" {
									o.o = &sqlOut{Panic: p}
								}
								cancel()
							case "replace":
								rows := altRows[op.File]
								if replaced[op.File] {
									rows = cs.Datas[op.File].Expand()
								}
								tmp := paths[op.File] + ".new"
								os.Remove(tmp)
								if _, err := BuildIndex("mem-file", tmp, rows); err != nil {
									o.o = &sqlOut{Err: "harness: " + err.Error()}
									return
								}
								if err := os.Rename(tmp, paths[op.File]); err != nil {
									o.o = &sqlOut{Err: "harness: " + err.Error()}
									return
								}
								replaced[op.File] = !replaced[op.File]
							case "maxopen":
								dbs[op.H].SetMaxOpenConns(op.N)
							case "maxidle":
								dbs[op.H].SetMaxIdleConns(op.N)
							case "idletime":
								dbs[op.H].SetConnMaxIdleTime(time.Duration(op.N) * time.Second)
							case "hide":
								if err := os.Rename(paths[op.File], paths[op.File]+".hidden"); err != nil {
									o.o = &sqlOut{Err: "harness: " + err.Error()}
								}
							case "unhide":
								if err := os.Rename(paths[op.File]+".hidden", paths[op.File]); err != nil {
									o.o = &sqlOut{Err: "harness: " + err.Error()}
								}
							case "sleep":
								// off the whole-second grid: database/sql's cleaner ticks at multiples of
								// the idle time, and two fake timers expiring at the same instant wake in
								// an order the simulator does not control
								time.Sleep(time.Duration(op.N)*time.Second + 137*time.Millisecond)
							}
						})
					}
				}
			}
			pcfg := cfg
			pcfg.Seed = simrt.Hash3(cfg.Seed, uint64(pi), 7)
			if c.Replay != nil {
				// one trace per phase is stored back to back; split by phase marker
				pcfg.Replay = phaseTrace(c.Replay, pi)
			}
			res := simrt.Run(pcfg, fns)
			traces = append(traces, res.Trace)
			v.Count("sched_decisions", int64(res.Decisions))
			v.Count("context_switches", int64(res.Switches))
			v.Count("yields", res.Yields)
			v.Count("arrivals", int64(res.Arrivals))
			v.Count("adopted_goroutines", int64(res.Spawned))
			v.Count("fault_context_cancelled_inside_driver_call", int64(res.HooksFired))
			v.SimNs += int64(res.SimTime)
			v.IL = simrt.Hash3(v.IL, res.ILHash, uint64(pi)) | 1
			if res.Hang || res.Deadlock {
				hung = true
				bad = v.Violate("hang", "phase %d never finished: a task is blocked for more than 10 simulated minutes (hang=%v deadlock=%v)\n%s", pi, res.Hang, res.Deadlock, hangStacks(res.Stacks))
				return
			}
			for _, p := range res.Panics {
				bad = v.Violate("panic", "phase %d task %d panicked: %s\n%s", pi, p.Task, p.Value, trimStacks(p.Stack))
				return
			}
			for t, ops := range ph.Tasks {
				for i, op := range ops {
					o := outs[t][i]
					if o.p != "" {
						bad = v.Violate("panic", "phase %d task %d op %d (%s on handle %d) panicked: %s", pi, t, i, op.Kind, op.H, o.p)
						return
					}
					switch op.Kind {
					case "open", "close":
						if o.o != nil && o.o.Err != "" {
							bad = v.Violate("unexpected-error", "phase %d: %s of handle %d failed: %s", pi, op.Kind, op.H, o.o.Err)
							return
						}
					case "hide", "unhide", "replace":
						if o.o != nil && o.o.Err != "" {
							bad = v.Harness("%s", o.o.Err)
							return
						}
					case "query", "queryctx":
						rf := refs[fileOf[op.H]]
						if altAt[[3]int{pi, t, i}] {
							rf = altRefs[fileOf[op.H]]
						}
						w := wantFor(rf, op.Q)
						if mustFail[[3]int{pi, t, i}] {
							w = &sqlWant{MustErr: true, Why: "the index file does not exist at this point"}
						}
						if op.Kind == "queryctx" {
							v.Count("fault_query_with_cancellable_context", 1)
							if o.o != nil && o.o.Panic == "" && o.o.Err != "" {
								continue // a cancelled query may fail; it must not panic, and if it answers, correctly
							}
						}
						if sig, d := compareSQL(w, o.o); sig != "" {
							bad = v.Violate(sig, "phase %d task %d: query %q on handle %d (file %d): %s", pi, t, string(op.Q.Text), op.H, fileOf[op.H], d)
							return
						}
						v.Count("queries_checked", 1)
					}
				}
			}
			// at quiescence: every file without an open handle must be released
			for f, p := range paths {
				inUse := false
				for h := range dbs {
					if dbs[h] != nil && isOpen[h] && fileOf[h] == f {
						inUse = true
					}
				}
				if inUse {
					continue
				}
				if _, err := os.Lstat(p); err != nil {
					continue // moved away at the end of this phase
				}
				// goroutines of database/sql itself (the watcher of a cancelled query, the connection cleaner) are
				// no tasks: one of them may still be on its way through the driver's Close. The lock counts as
				// leaked if it is still held after everything in the bubble has come to rest and 10 simulated
				// seconds have passed.
				var free bool
				var err error
				for try := 0; try < 100; try++ {
					synctest.Wait()
					if free, err = flockFree(p); err != nil || free {
						break
					}
					time.Sleep(100 * time.Millisecond)
				}
				if err != nil {
					bad = v.Harness("flock probe: %v", err)
					return
				}
				if !free {
					bad = v.Violate("file-not-released", "after phase %d no handle on file %d is open but its lock is still held", pi, f)
					return
				}
				v.Count("lock_free_probes", 1)
			}
		}
	})
	v.Trace = joinTraces(traces)
	v.StateKey = simrt.Hash3(uint64(len(cs.Phases)), uint64(nh)<<8|uint64(len(cs.Datas)), simrt.HashStr(cs.Sched.Strategy))
	if bad != nil {
		if hung {
			bad.Fatal = true
		}
		return bad
	}
	if panicText != "" {
		return v.Violate("goroutine-leak", "bubble ended with blocked goroutines: %s\n%s", panicText, leftover)
	}
	return v
}

// spellPath returns an equivalent spelling of an absolute path.
func spellPath(p string, style int) string {
	dir, name := filepath.Split(p)
	dir = strings.TrimSuffix(dir, "/")
	switch style {
	case 1:
		return dir + "/./" + name
	case 2:
		return dir + "//" + name
	case 3:
		return dir + "/" + filepath.Base(dir) + "/../" + name // dir/<dirname>/../name: needs that sub-directory
	}
	return p
}

func hangStacks(s string) string {
	// keep the goroutines that sit in the code under test or in bbolt
	var keep []string
	for _, g := range splitGoroutines(s) {
		if containsAny(g, "akrennmair/updog.", "akrennmair/updog/driver", "bbolt.flock", "bbolt.Open") {
			if len(g) > 1800 {
				g = g[:1800]
			}
			keep = append(keep, g)
		}
	}
	if len(keep) > 3 {
		keep = keep[:3]
	}
	out := ""
	for _, g := range keep {
		out += g + "\n\n"
	}
	if out == "" {
		return trimStacks(s)
	}
	return out
}

func splitGoroutines(s string) []string {
	var out []string
	cur := ""
	for _, line := range splitLines(s) {
		if line == "" {
			if cur != "" {
				out = append(out, cur)
				cur = ""
			}
			continue
		}
		cur += line + "\n"
	}
	if cur != "" {
		out = append(out, cur)
	}
	return out
}

func splitLines(s string) []string {
	var out []string
	start := 0
	for i := 0; i < len(s); i++ {
		if s[i] == '\n' {
			out = append(out, s[start:i])
			start = i + 1
		}
	}
	return append(out, s[start:])
}

func containsAny(s string, subs ...string) bool {
	for _, x := range subs {
		if len(x) > 0 && len(s) >= len(x) {
			for i := 0; i+len(x) <= len(s); i++ {
				if s[i:i+len(x)] == x {
					return true
				}
			}
		}
	}
	return false
}

// A multi-phase schedule is stored as one Trace: the pre-emptions of phase p carry task
// numbers offset by 1000*p, and every phase's Pick list is terminated by -1.
func joinTraces(ts []simrt.Trace) *simrt.Trace {
	out := &simrt.Trace{}
	for p, t := range ts {
		for _, e := range t.Pre {
			out.Pre = append(out.Pre, simrt.Preempt{T: e.T + 1000*p, N: e.N, To: e.To})
		}
		out.Pick = append(out.Pick, t.Pick...)
		out.Pick = append(out.Pick, -1)
	}
	return out
}

func phaseTrace(all *simrt.Trace, p int) *simrt.Trace {
	out := &simrt.Trace{}
	for _, e := range all.Pre {
		if e.T/1000 == p {
			out.Pre = append(out.Pre, simrt.Preempt{T: e.T % 1000, N: e.N, To: e.To})
		}
	}
	k := 0
	for _, x := range all.Pick {
		if x == -1 {
			k++
			continue
		}
		if k == p {
			out.Pick = append(out.Pick, x)
		}
	}
	return out
}
