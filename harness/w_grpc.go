package verifsim

// C13 — the gRPC service answers each query of a batch like the library, in order.
// C14 — no request can crash the server.
// In-process tier: the handler type of `updog server` is called with requests that went
// through Marshal/Unmarshal (stub transport). Process tier: the real `updog server` binary
// (built from the current tree) as a child on a loopback port, driven one request at a
// time in an order fixed by the seed.

import (
	"context"
	"database/sql"
	"encoding/json"
	"fmt"
	"net"
	"os"
	"os/exec"
	"reflect"
	"strings"
	"syscall"
	"time"
	"unicode/utf8"

	"github.com/akrennmair/updog"
	"github.com/akrennmair/updog/internal/convert"
	pb "github.com/akrennmair/updog/proto/updog/v1"
	"github.com/akrennmair/updog/verifcli"
	"google.golang.org/grpc"
	"google.golang.org/grpc/codes"
	"google.golang.org/grpc/credentials/insecure"
	"google.golang.org/grpc/status"
	"google.golang.org/protobuf/encoding/protowire"
	"google.golang.org/protobuf/proto"
	"verif/simrt"
)

func init() {
	register("C13", &World{Gen: genC13, Run: runC13})
	register("C14", &World{Gen: genC14, Run: runC14})
}

// ------------------------------------------------------------------ server child

type serverChild struct {
	cmd  *exec.Cmd
	addr string
	conn *grpc.ClientConn
	cli  pb.QueryServiceClient
	log  string
	done chan struct{}
	werr error
}

func freePort() (int, error) {
	l, err := net.Listen("tcp", "127.0.0.1:0")
	if err != nil {
		return 0, err
	}
	defer l.Close()
	return l.Addr().(*net.TCPAddr).Port, nil
}

func startServer(c *Ctx, index string, cache, preload bool) (*serverChild, error) {
	bin := os.Getenv("VERIF_UPDOG_BIN")
	if bin == "" {
		return nil, fmt.Errorf("VERIF_UPDOG_BIN not set")
	}
	var lastErr error
	for attempt := 0; attempt < 5; attempt++ {
		port, err := freePort()
		if err != nil {
			return nil, err
		}
		s := &serverChild{addr: fmt.Sprintf("127.0.0.1:%d", port), log: c.Path(fmt.Sprintf("server-%d.log", attempt)), done: make(chan struct{})}
		args := []string{"server", "-l", s.addr, "-d", "127.0.0.1:0", "-f", index, fmt.Sprintf("--enable-cache=%v", cache), fmt.Sprintf("--enable-preloaded-data=%v", preload)}
		s.cmd = exec.Command(bin, args...)
		lf, _ := os.Create(s.log)
		s.cmd.Stdout, s.cmd.Stderr = lf, lf
		if err := s.cmd.Start(); err != nil {
			return nil, err
		}
		lf.Close()
		go func() { s.werr = s.cmd.Wait(); close(s.done) }()
		conn, err := grpc.NewClient(s.addr, grpc.WithTransportCredentials(insecure.NewCredentials()))
		if err != nil {
			s.stop()
			return nil, err
		}
		s.conn, s.cli = conn, pb.NewQueryServiceClient(conn)
		deadline := time.Now().Add(15 * time.Second)
		ready := false
		for time.Now().Before(deadline) && s.alive() {
			ctx, cancel := context.WithTimeout(context.Background(), 500*time.Millisecond)
			_, err := s.cli.Query(ctx, &pb.QueryRequest{})
			cancel()
			if err == nil {
				ready = true
				break
			}
			time.Sleep(10 * time.Millisecond)
		}
		if ready {
			return s, nil
		}
		b, _ := os.ReadFile(s.log)
		lastErr = fmt.Errorf("server did not become ready (alive=%v): %s", s.alive(), b)
		s.stop()
	}
	return nil, lastErr
}

func (s *serverChild) alive() bool {
	select {
	case <-s.done:
		return false
	default:
		return true
	}
}

// diedAfter decides whether the child is dead after an RPC. A handler panic kills the
// process; the client may learn of it (codes.Unavailable) before the kernel has reaped the
// child, so in that case the exit is awaited for a grace period instead of being sampled.
func (s *serverChild) diedAfter(err error) bool {
	if !s.alive() {
		return true
	}
	if err != nil && status.Code(err) == codes.Unavailable {
		select {
		case <-s.done:
			return true
		case <-time.After(5 * time.Second):
		}
	}
	return false
}

// stuck reports whether the child is deadlocked: every thread asleep and no CPU tick
// consumed during 10 s of wall time while a request is outstanding.
func (s *serverChild) rpcOrStuck(call func(ctx context.Context) error) (err error, stuck bool) {
	ctx, cancel := context.WithTimeout(context.Background(), 5*time.Minute)
	defer cancel()
	done := make(chan error, 1)
	go func() { done <- call(ctx) }()
	tick := time.NewTicker(250 * time.Millisecond)
	defer tick.Stop()
	idle := 0
	var last int64 = -1
	for {
		select {
		case err := <-done:
			return err, false
		case <-tick.C:
			if !s.alive() {
				continue // the RPC fails by itself
			}
			cpu, asleep := childActivity(s.cmd.Process.Pid)
			if asleep && cpu == last {
				idle++
			} else {
				idle = 0
			}
			last = cpu
			if idle >= 40 {
				cancel()
				<-done
				return nil, true
			}
		}
	}
}

func (s *serverChild) stop() {
	if s.conn != nil {
		s.conn.Close()
	}
	if s.alive() {
		_ = s.cmd.Process.Signal(syscall.SIGKILL)
		<-s.done
	}
}

func (s *serverChild) logTail() string {
	b, _ := os.ReadFile(s.log)
	if len(b) > 2500 {
		b = b[:2500]
	}
	return string(b)
}

// plainSpec removes the 64 KiB names and values from a fixture that travels over a real gRPC connection: every
// result group repeats its column names, and a response beyond gRPC's default 4 MiB message limit is refused by
// the transport (a limit of the deployment, not a statement of any property).
func plainSpec(sp *DataSpec) {
	for i := range sp.Cols {
		if sp.Cols[i].Kind == "huge" {
			sp.Cols[i].Kind = "utf8"
		}
		if len(sp.Cols[i].Name) > 100 {
			sp.Cols[i].Name = S(fmt.Sprintf("k%d", i))
		}
	}
}

func utf8Spec(sp *DataSpec) {
	for i := range sp.Cols {
		if sp.Cols[i].Kind == "bin" || sp.Cols[i].Kind == "order" || sp.Cols[i].Kind == "boundary" || sp.Cols[i].Kind == "joinable" {
			sp.Cols[i].Kind = "utf8"
		}
	}
}

// ------------------------------------------------------------------------- C13

type BatchQ struct {
	Q  *Query `json:"q"`
	ID int32  `json:"id,omitempty"`
}

type C13Case struct {
	Data    Dataset    `json:"data"`
	Cache   bool       `json:"cache"`
	Preload bool       `json:"preload"`
	Batches [][]BatchQ `json:"batches"`
	Process bool       `json:"process"` // also run the real server child + grpc:// driver
	Driver  []DrvQuery `json:"driver,omitempty"`
	Plan    []DrvStep  `json:"plan,omitempty"` // handle history of the driver tier (absent: one handle, every query once)
}

// DrvStep is one step of the driver tier: the same step is applied to the grpc:// and to the file: side.
type DrvStep struct {
	Op string `json:"op"` // open | close | noidle | query
	H  int    `json:"h"`  // handle number (0 or 1)
	Q  int    `json:"q,omitempty"`
}

func genC13(c *Ctx) any {
	r := c.Rand("c13")
	cs := &C13Case{Cache: r.Chance(2, 3), Preload: r.Chance(1, 2)}
	cs.Data.Spec = GenDataSpec(c.Rand("data"), r.Range(0, 150), false)
	utf8Spec(cs.Data.Spec)
	plainSpec(cs.Data.Spec)
	cs.Process = r.Chance(1, 3)
	if !cs.Process && r.Chance(1, 2) {
		cs.Data.Spec.WeirdNames(r) // the wire carries any column name; only the text language needs identifiers
	}
	si := infoOf(cs.Data.Spec.Expand())
	mk := func() *Query {
		q := &Query{Expr: GenExpr(r, si, r.Range(0, 3), ExprOpts{MaxArity: 3, UnknownCol: r.Chance(1, 12)})}
		if r.Chance(1, 2) {
			q.GroupBy = GenGroupBy(r, si, 3, r.Chance(1, 15))
		}
		return q
	}
	for b, nb := 0, r.Range(2, 6); b < nb; b++ {
		var batch []BatchQ
		n := r.Range(0, 12)
		big := r.Chance(1, 12)
		if big {
			// long batches: position-dependent tagging, chunked evaluation
			n = []int{63, 64, 65, 100, 128, 129, 256, 257, 1000}[r.Intn(9)]
		}
		for i := 0; i < n; i++ {
			bq := BatchQ{Q: mk()}
			if big && i%8 != 0 {
				bq.Q = &Query{Expr: genLeaf(r, si, ExprOpts{})}
			}
			idKind := r.Intn(6)
			if big && r.Chance(3, 4) {
				idKind = 5 // mostly untagged
			}
			switch idKind {
			case 0:
				bq.ID = int32(r.Range(1, 5)) // duplicates likely
			case 1:
				bq.ID = -int32(r.Range(1, 1000))
			case 2:
				bq.ID = int32(r.Range(100, 1<<30))
			}
			batch = append(batch, bq)
		}
		if len(batch) > 0 && r.Chance(1, 3) {
			// the same expression again with a group-by list that a careless key (strings joined
			// with a separator) would confuse with the first one
			src := batch[r.Intn(len(batch))]
			var joined []string
			for _, g := range src.Q.GroupBy {
				joined = append(joined, string(g))
			}
			variant := &Query{Expr: src.Q.Expr}
			switch {
			case len(joined) >= 2:
				variant.GroupBy = []S{S(strings.Join(joined, []string{",", " ", ";", ", "}[r.Intn(4)]))}
			case len(joined) == 1:
				variant.GroupBy = nil
			default:
				variant.GroupBy = []S{""}
			}
			batch = append(batch, BatchQ{Q: variant})
			if r.Chance(1, 2) {
				batch = append(batch, BatchQ{Q: &Query{Expr: src.Q.Expr, GroupBy: src.Q.GroupBy}}) // and an exact duplicate
			}
		}
		cs.Batches = append(cs.Batches, batch)
	}
	if cs.Process {
		for i, n := 0, r.Range(3, 8); i < n; i++ {
			dq := genDrvQuery(r, mk(), []int{0, 400, 900}[r.Intn(3)])
			if r.Chance(1, 3) {
				dq.Via = "stmt"
				if len(dq.Args) > 0 && r.Chance(2, 3) {
					// the same prepared statement again, with other arguments
					for k, nk := 0, r.Range(1, 3); k < nk; k++ {
						args := genArgs(r, si, len(dq.Args))
						for i := range args {
							if args[i].S != nil && !utf8.ValidString(string(*args[i].S)) {
								ok := S("v0") // protobuf strings carry nothing but UTF-8
								args[i].S = &ok
							}
						}
						dq.More = append(dq.More, args)
					}
				}
			}
			cs.Driver = append(cs.Driver, dq)
		}
		if r.Chance(1, 2) {
			// two handles on the same data source, opened and closed around the queries
			open := [2]bool{true, false}
			cs.Plan = append(cs.Plan, DrvStep{Op: "open", H: 0})
			for qi := range cs.Driver {
				for k := 0; k < 2; k++ {
					h := r.Intn(2)
					switch {
					case !open[h] && r.Chance(1, 2):
						cs.Plan, open[h] = append(cs.Plan, DrvStep{Op: "open", H: h}), true
					case open[h] && open[1-h] && r.Chance(1, 3):
						cs.Plan, open[h] = append(cs.Plan, DrvStep{Op: "close", H: h}), false
					case open[h] && r.Chance(1, 6):
						cs.Plan = append(cs.Plan, DrvStep{Op: "noidle", H: h})
					}
				}
				h := r.Intn(2)
				if !open[h] {
					h = 1 - h
				}
				cs.Plan = append(cs.Plan, DrvStep{Op: "query", H: h, Q: qi})
				if open[1-h] && r.Chance(1, 3) {
					cs.Plan = append(cs.Plan, DrvStep{Op: "query", H: 1 - h, Q: qi})
				}
			}
		}
	}
	return cs
}

func buildRequest(batch []BatchQ) (*pb.QueryRequest, []*Query, []int32, bool) {
	req := &pb.QueryRequest{}
	var qs []*Query
	var ids []int32
	for _, bq := range batch {
		req.Queries = append(req.Queries, bq.Q.ToProto(bq.ID))
		qs = append(qs, bq.Q)
		ids = append(ids, bq.ID)
	}
	wire, err := proto.Marshal(req)
	dec := &pb.QueryRequest{}
	if err != nil || proto.Unmarshal(wire, dec) != nil {
		return nil, nil, nil, false
	}
	return dec, qs, ids, true
}

func runC13(c *Ctx, body json.RawMessage) *Verdict {
	v := OK()
	var cs C13Case
	if err := json.Unmarshal(body, &cs); err != nil {
		return v.Harness("decode: %v", err)
	}
	v.CaseKey = hashJSON(&cs)
	for _, b := range cs.Batches {
		for _, bq := range b {
			if !bq.Q.Valid() {
				return Invalid("malformed expression")
			}
		}
	}
	rows := cs.Data.Expand()
	ref := NewRefIndex(rows)
	path := c.Path("srv.updog")
	if _, err := BuildIndex("mem-file", path, rows); err != nil {
		return v.Harness("build: %v", err)
	}
	oc := OpenCfg{Preload: cs.Preload}
	if cs.Cache {
		oc.Cache, oc.CacheBytes = "lru", 50<<20
	}
	idx, _, err := OpenIndex(path, oc, c.Seed)
	if err != nil {
		return v.Harness("open: %v", err)
	}
	srv := verifcli.NewServer(idx)
	if srv == nil {
		idx.Close()
		return v.Harness("the service value of `updog server` could not be built the way the program builds it")
	}
	for bi, batch := range cs.Batches {
		req, qs, ids, ok := buildRequest(batch)
		if !ok {
			idx.Close()
			return Invalid("request not encodable")
		}
		var resp *pb.QueryResponse
		var rerr error
		if p := guard(func() { resp, rerr = srv.Query(context.Background(), req) }); p != "" {
			idx.Close()
			return v.Violate("handler-panic", "batch %d: handler panicked: %s", bi, p)
		}
		if resp != nil {
			// the response goes over the wire, too
			wire, err := proto.Marshal(resp)
			dec := &pb.QueryResponse{}
			if err != nil || proto.Unmarshal(wire, dec) != nil {
				idx.Close()
				return v.Violate("response-not-encodable", "batch %d: response cannot be marshalled: %v", bi, err)
			}
			resp = dec
		}
		if d := compareBatch(ref, qs, ids, resp, rerr); d != "" {
			idx.Close()
			return v.Violate("wrong-batch-result", "batch %d (%d queries, ids %v): %s", bi, len(batch), ids, d)
		}
		if len(batch) >= 2 {
			v.NonTrivial = true
		}
		v.Count("batches_checked", 1)
		// conversion losslessness on what the library itself returns
		for _, q := range qs {
			uq := convert.ToQuery(q.ToProto(0))
			if uq == nil || uq.Expr == nil || uq.Expr.String() != q.ToUpdog().Expr.String() || !reflect.DeepEqual(append([]string{}, uq.GroupBy...), append([]string{}, q.ToUpdog().GroupBy...)) {
				idx.Close()
				return v.Violate("lossy-query-conversion", "ToQuery(%s) = %v", q, uq)
			}
			res, err := idx.Execute(q.ToUpdog())
			if err != nil {
				continue
			}
			wire, _ := proto.Marshal(convert.ToProtobufResult(res, 7))
			pr := &pb.Result{}
			_ = proto.Unmarshal(wire, pr)
			back := convert.ToResult(pr)
			if pr.QueryId != 7 || back.Count != res.Count || !sameGroups(back.Groups, res.Groups) {
				idx.Close()
				return v.Violate("lossy-result-conversion", "result of %s changed on the way through ToProtobufResult/ToResult", q)
			}
			v.Count("conversions_checked", 1)
		}
	}
	idx.Close()
	v.StateKey = simrt.Hash3(uint64(len(cs.Batches)), boolU(cs.Cache)<<1|boolU(cs.Preload), boolU(cs.Process))
	if !cs.Process {
		return v
	}
	// process tier: real server + grpc:// DSN vs file: DSN on a copy of the same index
	copyPath := c.Path("file-dsn.updog")
	if err := copyFile(path, copyPath); err != nil {
		return v.Harness("copy: %v", err)
	}
	s, err := startServer(c, path, cs.Cache, cs.Preload)
	if err != nil {
		return v.Harness("server child: %v", err)
	}
	defer s.stop()
	v.Count("server_children", 1)
	for bi, batch := range cs.Batches {
		req, qs, ids, _ := buildRequest(batch)
		ctx, cancel := context.WithTimeout(context.Background(), 30*time.Second)
		resp, rerr := s.cli.Query(ctx, req)
		cancel()
		if s.diedAfter(rerr) {
			return v.Violate("server-died", "the server process exited while answering batch %d:\n%s", bi, s.logTail())
		}
		if status.Code(rerr) == codes.DeadlineExceeded {
			return v.Harness("probe timed out with the server alive (inconclusive)")
		}
		if d := compareBatch(ref, qs, ids, resp, rerr); d != "" {
			return v.Violate("wrong-batch-result", "real server, batch %d: %s", bi, d)
		}
		v.Count("rpc_batches_checked", 1)
	}
	var gdbs, fdbs [2]*sql.DB
	defer func() {
		for h := 0; h < 2; h++ {
			if gdbs[h] != nil {
				gdbs[h].Close()
			}
			if fdbs[h] != nil {
				fdbs[h].Close()
			}
		}
	}()
	plan := cs.Plan
	if len(plan) == 0 {
		plan = []DrvStep{{Op: "open", H: 0}}
		for qi := range cs.Driver {
			plan = append(plan, DrvStep{Op: "query", H: 0, Q: qi})
		}
	}
	for si, st := range plan {
		if st.H < 0 || st.H > 1 || (st.Op == "query" && (st.Q < 0 || st.Q >= len(cs.Driver))) {
			return Invalid("bad plan step")
		}
		switch st.Op {
		case "open":
			if gdbs[st.H] != nil {
				return Invalid("handle opened twice")
			}
			var err error
			if gdbs[st.H], err = sql.Open("updog", "grpc://"+s.addr); err != nil {
				return v.Harness("sql.Open grpc: %v", err)
			}
			if fdbs[st.H], err = sql.Open("updog", "file:"+copyPath); err != nil {
				return v.Harness("sql.Open file: %v", err)
			}
			continue
		case "close":
			if gdbs[st.H] == nil {
				return Invalid("closing a closed handle")
			}
			gdbs[st.H].Close()
			fdbs[st.H].Close()
			gdbs[st.H], fdbs[st.H] = nil, nil
			continue
		case "noidle":
			if gdbs[st.H] == nil {
				return Invalid("closed handle")
			}
			gdbs[st.H].SetMaxIdleConns(0)
			fdbs[st.H].SetMaxIdleConns(0)
			continue
		case "query":
		default:
			return Invalid("unknown plan step")
		}
		gdb, fdb := gdbs[st.H], fdbs[st.H]
		if gdb == nil {
			return Invalid("query on a closed handle")
		}
		qi, dq := st.Q, cs.Driver[st.Q]
		var ogs, ofs []*sqlOut
		if dq.Via == "stmt" && len(dq.More) > 0 {
			ogs, ofs = runSeries(gdb, dq), runSeries(fdb, dq)
		} else {
			ogs, ofs = []*sqlOut{runDB(gdb, dq)}, []*sqlOut{runDB(fdb, dq)}
		}
		if !s.alive() {
			return v.Violate("server-died", "the server process exited during driver query %d:\n%s", qi, s.logTail())
		}
		for k := range ogs {
			one := dq
			if k > 0 {
				if len(dq.More[k-1]) != len(dq.Args) {
					return Invalid("argument lists of one statement differ in length")
				}
				one.Args = dq.More[k-1]
			}
			w := wantFor(ref, one)
			og, of := ogs[k], ofs[k]
			if sig, d := compareSQL(w, og); sig != "" {
				return v.Violate("grpc-dsn-"+sig, "plan step %d, driver query %d %q args %q (execution %d of the statement) over grpc://: %s", si, qi, string(one.Text), argTexts(one.Args), k+1, d)
			}
			if sig, d := compareSQL(w, of); sig != "" {
				return v.Violate("file-dsn-"+sig, "plan step %d, driver query %d %q over file: %s", si, qi, string(one.Text), d)
			}
			if (og.Err == "") != (of.Err == "") || fmt.Sprint(og.Cols, og.Types, og.Rows) != fmt.Sprint(of.Cols, of.Types, of.Rows) {
				if !(w.MayErr) {
					return v.Violate("dsn-disagreement", "driver query %d %q: grpc:// gave %v/%v/%q, file: gave %v/%v/%q", qi, string(one.Text), og.Cols, og.Rows, og.Err, of.Cols, of.Rows, of.Err)
				}
			}
			v.Count("driver_queries_checked", 1)
		}
	}
	return v
}

func boolU(b bool) uint64 {
	if b {
		return 1
	}
	return 0
}

func sameGroups(a, b []updog.ResultGroup) bool {
	if len(a) != len(b) {
		return false
	}
	for i := range a {
		if a[i].Count != b[i].Count || len(a[i].Fields) != len(b[i].Fields) {
			return false
		}
		for j := range a[i].Fields {
			if a[i].Fields[j] != b[i].Fields[j] {
				return false
			}
		}
	}
	return true
}

// ------------------------------------------------------------------------- C14

// Hostile is one request: a wire-level message (hex) plus what it is.
type Hostile struct {
	Wire S      `json:"wire"` // raw bytes of a QueryRequest
	What string `json:"what"`
}

type C14Case struct {
	Data    Dataset     `json:"data"`
	Cache   bool        `json:"cache"`
	Preload bool        `json:"preload"`
	Rounds  [][]Hostile `json:"rounds"` // hostile requests between two well-formed probes
	Probes  []*Query    `json:"probes"`
}

type rawCodec struct{}

func (rawCodec) Marshal(v any) ([]byte, error) { return *(v.(*[]byte)), nil }
func (rawCodec) Unmarshal(data []byte, v any) error {
	*(v.(*[]byte)) = append([]byte(nil), data...)
	return nil
}
func (rawCodec) Name() string { return "proto" }

func pbExpr(e *Expr) *pb.Query_Expression { return e.ToProto() }

// omissions returns structurally damaged variants of a valid query at every node position.
func omissions(r *simrt.Rand, q *Query) []Hostile {
	var out []Hostile
	add := func(what string, m proto.Message) {
		b, err := proto.Marshal(m)
		if err == nil {
			out = append(out, Hostile{Wire: S(b), What: what})
		}
	}
	req := func(qs ...*pb.Query) *pb.QueryRequest { return &pb.QueryRequest{Queries: qs} }
	add("query without expression", req(&pb.Query{Id: 1}))
	add("query with unset oneof", req(&pb.Query{Expr: &pb.Query_Expression{}}))
	add("nil query element", req(&pb.Query{}, &pb.Query{}))
	add("group-by only", req(&pb.Query{GroupBy: []string{"a"}}))
	// walk the tree; at each position substitute a damaged node
	var positions []*pb.Query_Expression
	root := pbExpr(q.Expr)
	var walk func(e *pb.Query_Expression)
	walk = func(e *pb.Query_Expression) {
		positions = append(positions, e)
		switch v := e.Value.(type) {
		case *pb.Query_Expression_Not_:
			walk(v.Not.Expr)
		case *pb.Query_Expression_And_:
			for _, k := range v.And.Exprs {
				walk(k)
			}
		case *pb.Query_Expression_Or_:
			for _, k := range v.Or.Exprs {
				walk(k)
			}
		}
	}
	walk(root)
	damaged := []func() *pb.Query_Expression{
		func() *pb.Query_Expression { return &pb.Query_Expression{} },
		func() *pb.Query_Expression {
			return &pb.Query_Expression{Value: &pb.Query_Expression_Eq{Eq: &pb.Query_Expression_Equal{}}}
		},
		func() *pb.Query_Expression {
			return &pb.Query_Expression{Value: &pb.Query_Expression_Not_{Not: &pb.Query_Expression_Not{}}}
		},
		func() *pb.Query_Expression {
			return &pb.Query_Expression{Value: &pb.Query_Expression_And_{And: &pb.Query_Expression_And{}}}
		},
		func() *pb.Query_Expression {
			return &pb.Query_Expression{Value: &pb.Query_Expression_Or_{Or: &pb.Query_Expression_Or{}}}
		},
		func() *pb.Query_Expression {
			return &pb.Query_Expression{Value: &pb.Query_Expression_And_{And: &pb.Query_Expression_And{Exprs: []*pb.Query_Expression{{}, {}}}}}
		},
		func() *pb.Query_Expression {
			return &pb.Query_Expression{Value: &pb.Query_Expression_Or_{Or: &pb.Query_Expression_Or{Exprs: []*pb.Query_Expression{{Value: &pb.Query_Expression_Not_{Not: &pb.Query_Expression_Not{}}}}}}}
		},
		func() *pb.Query_Expression {
			return &pb.Query_Expression{Value: &pb.Query_Expression_Eq{Eq: &pb.Query_Expression_Equal{Column: "nosuchcol", Value: "x"}}}
		},
		func() *pb.Query_Expression {
			return &pb.Query_Expression{Value: &pb.Query_Expression_Eq{Eq: &pb.Query_Expression_Equal{Column: "a", Placeholder: int32(r.Range(1, 9))}}}
		},
	}
	names := []string{"unset oneof", "empty eq", "not without operand", "and without operands", "or without operands", "and of two unset expressions", "or of not-without-operand", "unknown column", "unresolved placeholder"}
	var gb []string
	for _, g := range q.GroupBy {
		gb = append(gb, string(g))
	}
	valid := func() *pb.Query { return q.ToProto(3) }
	for pi, pos := range positions {
		for di, mk := range damaged {
			saved := pos.Value
			pos.Value = mk().Value
			hostile := &pb.Query{Id: 9, Expr: root}
			what := fmt.Sprintf("%s at position %d", names[di], pi)
			switch r.Intn(5) {
			case 4:
				hostile.GroupBy = gb
				if len(gb) == 0 {
					hostile.GroupBy = []string{"a"}
				}
				add(what+" with group-by, in a batch", req(valid(), hostile, valid()))
			case 0:
				hostile.GroupBy = gb
				add(what+" with group-by", req(hostile))
			case 1:
				add(what+" as second query of a batch", req(valid(), hostile))
			case 2:
				add(what+" as first query of a batch", req(hostile, valid()))
			default:
				add(what, req(hostile))
			}
			pos.Value = saved
		}
	}
	return out
}

func deepNot(depth int, leaf *pb.Query_Expression) []byte {
	// built inside-out at wire level so that building it does not recurse
	b, _ := proto.Marshal(leaf)
	for i := 0; i < depth; i++ {
		// Expression{ not = 2 { expr = 1 } }
		inner := protowire.AppendTag(nil, 1, protowire.BytesType)
		inner = protowire.AppendBytes(inner, b)
		b = protowire.AppendTag(nil, 2, protowire.BytesType)
		b = protowire.AppendBytes(b, inner)
	}
	q := protowire.AppendTag(nil, 2, protowire.BytesType) // Query.expr
	q = protowire.AppendBytes(q, b)
	reqb := protowire.AppendTag(nil, 1, protowire.BytesType) // QueryRequest.queries
	return protowire.AppendBytes(reqb, q)
}

func genC14(c *Ctx) any {
	r := c.Rand("c14")
	cs := &C14Case{Cache: r.Chance(2, 3), Preload: r.Chance(1, 2)}
	cs.Data.Spec = GenDataSpec(c.Rand("data"), r.Range(1, 80), false)
	utf8Spec(cs.Data.Spec)
	// the fixture stays ordinary (what is unusual here comes in through requests): a tree whose WRITER trips over
	// long strings is C01/C05's business and would only keep this check from deciding
	plainSpec(cs.Data.Spec)
	si := infoOf(cs.Data.Spec.Expand())
	var pool []Hostile
	var bases []*Query
	for i := 0; i < 3; i++ {
		q := &Query{Expr: GenExpr(r, si, r.Range(1, 3), ExprOpts{MaxArity: 3})}
		if r.Chance(1, 2) {
			q.GroupBy = GenGroupBy(r, si, 2, false)
		}
		bases = append(bases, q)
		pool = append(pool, omissions(r, q)...)
	}
	// many failing queries in ONE request (worker pools, error channels, partial responses)
	for _, k := range []int{7, 8, 9, 16, 17, 33, 64, 100, 257} {
		if k > 33 && !c.Thorough() && r.Chance(1, 2) {
			continue
		}
		for variant := 0; variant < 3; variant++ {
			req := &pb.QueryRequest{}
			for i := 0; i < k; i++ {
				switch variant {
				case 0:
					req.Queries = append(req.Queries, &pb.Query{})
				case 1:
					req.Queries = append(req.Queries, &pb.Query{Expr: Eq("nosuchcol", "x").ToProto()})
				default:
					req.Queries = append(req.Queries, &pb.Query{Expr: &pb.Query_Expression{Value: &pb.Query_Expression_Not_{Not: &pb.Query_Expression_Not{}}}})
				}
			}
			valid := bases[r.Intn(len(bases))].ToProto(5)
			switch r.Intn(3) {
			case 0:
				req.Queries = append(req.Queries, valid)
			case 1:
				req.Queries = append([]*pb.Query{valid}, req.Queries...)
			}
			if b, err := proto.Marshal(req); err == nil {
				pool = append(pool, Hostile{Wire: S(b), What: fmt.Sprintf("batch of %d failing queries (variant %d)", k, variant)})
			}
		}
	}
	// well-formed but unusually large requests: long strings (fixed-size buffers), batches beyond any
	// plausible internal queue length
	col := firstCol(si)
	for _, n := range []int{255, 256, 257, 300, 1000, 4096, 65536, 300000} {
		if n > 4096 && !c.Thorough() && r.Chance(1, 2) {
			continue
		}
		long := strings.Repeat("L", n)
		for variant := 0; variant < 4; variant++ {
			var q *Query
			switch variant {
			case 0:
				q = &Query{Expr: Eq(col, long)}
			case 1:
				q = &Query{Expr: Eq(long, "v0")}
			case 2:
				q = &Query{Expr: And(Eq(col, "v0"), Not(Eq(col, long)))}
			default:
				q = &Query{Expr: Eq(col, "v0"), GroupBy: []S{S(long)}}
			}
			if b, err := proto.Marshal(&pb.QueryRequest{Queries: []*pb.Query{q.ToProto(0)}}); err == nil {
				pool = append(pool, Hostile{Wire: S(b), What: fmt.Sprintf("well-formed query with a string of %d bytes (variant %d)", n, variant)})
			}
		}
	}
	for _, k := range []int{258, 272, 273, 300, 1000, 5000} {
		if k > 300 && !c.Thorough() && r.Chance(1, 2) {
			continue
		}
		req := &pb.QueryRequest{}
		for i := 0; i < k; i++ {
			req.Queries = append(req.Queries, (&Query{Expr: Eq(col, fmt.Sprintf("v%d", i%7))}).ToProto(0))
		}
		if b, err := proto.Marshal(req); err == nil {
			pool = append(pool, Hostile{Wire: S(b), What: fmt.Sprintf("batch of %d well-formed queries", k)})
		}
	}
	leaf := Eq(firstCol(si), "v0").ToProto()
	for _, d := range []int{50, 99, 100, 101, 127, 128, 129, 255, 256, 500, 1000, 2000, 4096, 9000} {
		if d > 500 && !c.Thorough() && r.Chance(2, 3) {
			continue
		}
		pool = append(pool, Hostile{Wire: S(deepNot(d, leaf)), What: fmt.Sprintf("NOT nested %d deep", d)})
		pool = append(pool, Hostile{Wire: S(deepNot(d, &pb.Query_Expression{})), What: fmt.Sprintf("NOT nested %d deep over an unset expression", d)})
	}
	// random protobuf-valid byte strings: unknown fields, odd wire types, repeated scalars
	for i := 0; i < 12; i++ {
		var b []byte
		for j, n := 0, r.Range(1, 6); j < n; j++ {
			fn := protowire.Number(r.Range(1, 9))
			switch r.Intn(4) {
			case 0:
				b = protowire.AppendTag(b, fn, protowire.VarintType)
				b = protowire.AppendVarint(b, r.U64())
			case 1:
				b = protowire.AppendTag(b, fn, protowire.Fixed64Type)
				b = protowire.AppendFixed64(b, r.U64())
			case 2:
				b = protowire.AppendTag(b, fn, protowire.BytesType)
				inner := make([]byte, r.Range(0, 12))
				for k := range inner {
					inner[k] = byte(r.Intn(256))
				}
				b = protowire.AppendBytes(b, inner)
			default:
				b = protowire.AppendTag(b, fn, protowire.Fixed32Type)
				b = protowire.AppendFixed32(b, uint32(r.U64()))
			}
		}
		pool = append(pool, Hostile{Wire: S(b), What: "random wire fields"})
	}
	for i, n := 0, r.Range(3, 8); i < n; i++ {
		var round []Hostile
		for j, m := 0, r.Range(1, 8); j < m; j++ {
			round = append(round, pool[r.Intn(len(pool))])
		}
		cs.Rounds = append(cs.Rounds, round)
		q := &Query{Expr: GenExpr(r, si, r.Range(0, 2), ExprOpts{MaxArity: 3})}
		if r.Chance(1, 2) {
			q.GroupBy = GenGroupBy(r, si, 2, false)
		}
		if r.Chance(1, 2) {
			// the intact tree the hostile messages were derived from (or a part of it): a
			// failed request that left something behind under its cache keys shows up here
			q = bases[r.Intn(len(bases))]
			if r.Chance(1, 3) && len(q.Expr.Kids) > 0 {
				q = &Query{Expr: q.Expr.Kids[r.Intn(len(q.Expr.Kids))]}
			}
		}
		cs.Probes = append(cs.Probes, q)
	}
	return cs
}

func runC14(c *Ctx, body json.RawMessage) *Verdict {
	v := OK()
	var cs C14Case
	if err := json.Unmarshal(body, &cs); err != nil {
		return v.Harness("decode: %v", err)
	}
	v.CaseKey = hashJSON(&cs)
	for _, q := range cs.Probes {
		if !q.Valid() {
			return Invalid("malformed probe")
		}
	}
	if len(cs.Probes) < len(cs.Rounds) {
		return Invalid("a probe per round is needed")
	}
	rows := cs.Data.Expand()
	ref := NewRefIndex(rows)
	path := c.Path("srv.updog")
	if _, err := BuildIndex("mem-file", path, rows); err != nil {
		return v.Harness("build: %v", err)
	}
	s, err := startServer(c, path, cs.Cache, cs.Preload)
	if err != nil {
		return v.Harness("server child: %v", err)
	}
	defer s.stop()
	sent := 0
	for ri, round := range cs.Rounds {
		for hi, h := range round {
			reqb := []byte(h.Wire)
			// only messages that decode are in the quantifier
			if proto.Unmarshal(reqb, &pb.QueryRequest{}) != nil {
				v.Count("skipped_undecodable", 1)
				continue
			}
			var respb []byte
			err, stuck := s.rpcOrStuck(func(ctx context.Context) error {
				return s.conn.Invoke(ctx, "/updog.v1.QueryService/Query", &reqb, &respb, grpc.ForceCodec(rawCodec{}))
			})
			sent++
			if stuck {
				return v.Violate("server-stuck", "round %d request %d (%s): no answer and the server process is asleep (no CPU time for 10 s): it will never answer", ri, hi, h.What)
			}
			if s.diedAfter(err) {
				return v.Violate("server-died", "round %d request %d (%s): the server process exited (%v)\n%s", ri, hi, h.What, s.werr, s.logTail())
			}
			if status.Code(err) == codes.DeadlineExceeded {
				return v.Harness("hostile request timed out with the server alive (inconclusive): %s", h.What)
			}
			if err != nil {
				v.Count("answered_with_rpc_error", 1)
			} else {
				v.Count("answered_with_response", 1)
			}
			v.Count("fault_hostile_"+strings.SplitN(h.What, " at position", 2)[0], 1)
			if strings.Contains(h.What, "batch") {
				v.Count("fault_hostile_in_batch", 1)
			}
			if strings.Contains(h.What, "group-by") {
				v.Count("fault_hostile_with_group_by", 1)
			}
		}
		q := cs.Probes[ri]
		req, qs, ids, ok := buildRequest([]BatchQ{{Q: q}})
		if !ok {
			return Invalid("probe not encodable")
		}
		var resp *pb.QueryResponse
		rerr, stuck := s.rpcOrStuck(func(ctx context.Context) error {
			var e error
			resp, e = s.cli.Query(ctx, req)
			return e
		})
		if stuck {
			return v.Violate("server-stuck", "probe %d (%s) after %d hostile requests is never answered: the server process is asleep (no CPU time for 10 s)", ri, q, sent)
		}
		if s.diedAfter(rerr) {
			return v.Violate("server-died", "the server process exited before probe %d was answered (%v)\n%s", ri, s.werr, s.logTail())
		}
		if status.Code(rerr) == codes.DeadlineExceeded {
			return v.Harness("probe timed out with the server alive (inconclusive)")
		}
		if d := compareBatch(ref, qs, ids, resp, rerr); d != "" {
			return v.Violate("probe-wrong-after-hostile-requests", "probe %d (%s) after %d hostile requests: %s", ri, q, sent, d)
		}
		v.Count("probes_answered", 1)
	}
	v.NonTrivial = sent >= 1
	v.StateKey = simrt.Hash3(uint64(len(cs.Rounds)), uint64(sent), boolU(cs.Cache)<<1|boolU(cs.Preload))
	return v
}
