package verifsim

// C04 — concurrent queries on one index / one LRU cache / the gRPC handler.
// C18 — concurrent AddRow on both writers.

import (
	"context"
	"encoding/json"
	"fmt"
	"os"
	"sort"
	"time"

	"github.com/RoaringBitmap/roaring"
	"github.com/akrennmair/updog"
	pb "github.com/akrennmair/updog/proto/updog/v1"
	"github.com/akrennmair/updog/verifcli"
	"github.com/anishathalye/porcupine"
	"go.etcd.io/bbolt"
	"google.golang.org/protobuf/proto"
	"verif/simrt"
)

type ConcOp struct {
	Kind  string   `json:"kind"` // exec | schema | put | get | rpc
	Q     *Query   `json:"q,omitempty"`
	Batch []*Query `json:"batch,omitempty"`
	Key   uint64   `json:"key,omitempty"`
	Size  int      `json:"size,omitempty"` // put: cardinality of the bitmap
	// Cancelled: the RPC's context is already cancelled when the handler is entered (a client
	// that gave up). Such a call may fail; every OTHER call must still be answered correctly.
	Cancelled bool `json:"cancelled,omitempty"`
}

type C04Case struct {
	// Scribble: every caller overwrites the result it received (after keeping a private copy
	// for the oracle): results must not share memory with the index or with other callers
	Scribble bool       `json:"scribble,omitempty"`
	Mode     string     `json:"mode"` // index | lru | grpc
	Data     Dataset    `json:"data"`
	Writer   string     `json:"writer"`
	Open     OpenCfg    `json:"open"`
	LRUBytes uint64     `json:"lru_bytes,omitempty"`
	Tasks    [][]ConcOp `json:"tasks"`
	Sched    SchedCfg   `json:"sched"`
}

func init() {
	register("C04", &World{Gen: genC04, Run: runC04, Races: true})
	register("C18", &World{Gen: genC18, Run: runC18, Races: true})
}

func genC04(c *Ctx) any {
	r := c.Rand("c04")
	cs := &C04Case{}
	switch r.Intn(10) {
	case 0, 1, 2:
		cs.Mode = "lru"
	case 3, 4:
		cs.Mode = "grpc"
	default:
		cs.Mode = "index"
	}
	maxTasks := 8
	if c.Thorough() {
		maxTasks = 16
	}
	nt := r.Range(2, 4)
	if r.Chance(1, 4) {
		nt = r.Range(2, maxTasks)
	}
	cs.Sched = genSched(c.Rand("sched"), 3000)
	cs.Scribble = cs.Mode == "index" && r.Chance(1, 4)
	if cs.Mode == "lru" {
		cs.LRUBytes = []uint64{0, 200, 600, 3000, 1 << 20}[r.Intn(5)]
		nkeys := r.Range(1, 5)
		for t := 0; t < nt; t++ {
			var ops []ConcOp
			for i, n := 0, r.Range(3, 14); i < n; i++ {
				k := uint64(1 + r.Intn(nkeys))
				if r.Chance(1, 2) {
					ops = append(ops, ConcOp{Kind: "put", Key: k, Size: []int{0, 1, 5, 40, 300}[r.Intn(5)]})
				} else {
					ops = append(ops, ConcOp{Kind: "get", Key: k})
				}
			}
			cs.Tasks = append(cs.Tasks, ops)
		}
		return cs
	}
	n := r.Range(1, 120)
	cs.Data.Spec = GenDataSpec(c.Rand("data"), n, false)
	cs.Writer = writerKinds[r.Intn(len(writerKinds))]
	cs.Open = genOpenCfg(c.Rand("open"), false)
	cs.Open.ViaDB = false
	if cs.Mode == "grpc" {
		// the server's defaults: LRU cache of 50 MiB, optional preload
		cs.Open.Cache, cs.Open.CacheBytes = "lru", 50<<20
		// protobuf string fields cannot carry invalid UTF-8
		utf8Spec(cs.Data.Spec)
	}
	si := infoOf(cs.Data.Spec.Expand())
	var pool []*Query
	for i, np := 0, r.Range(3, 8); i < np; i++ {
		q := &Query{Expr: GenExpr(r, si, r.Range(1, 4), ExprOpts{MaxArity: 3, UnknownCol: true})}
		if r.Chance(1, 3) {
			q.GroupBy = GenGroupBy(r, si, 3, true)
		}
		pool = append(pool, q)
	}
	// related queries: re-use sub-trees of earlier pool members
	for i := 0; i < 3; i++ {
		a, b := pool[r.Intn(len(pool))].Expr, pool[r.Intn(len(pool))].Expr
		if r.Chance(1, 2) {
			pool = append(pool, &Query{Expr: And(a.Clone(), b.Clone())})
		} else {
			pool = append(pool, &Query{Expr: Or(Not(a.Clone()), b.Clone())})
		}
	}
	cancels := cs.Mode == "grpc" && r.Chance(1, 3)
	if cancels && len(pool) > 4 {
		pool = pool[:4]
	}
	for t := 0; t < nt; t++ {
		var ops []ConcOp
		for i, no := 0, r.Range(3, 12); i < no; i++ {
			switch {
			case cs.Mode == "grpc":
				var batch []*Query
				nb := r.Range(1, 3)
				if cancels {
					nb = 1 // identical requests in flight become likely
				}
				for j := 0; j < nb; j++ {
					batch = append(batch, pool[r.Intn(len(pool))])
				}
				ops = append(ops, ConcOp{Kind: "rpc", Batch: batch, Cancelled: cancels && r.Chance(1, 4)})
			case r.Chance(1, 6):
				ops = append(ops, ConcOp{Kind: "schema"})
			default:
				ops = append(ops, ConcOp{Kind: "exec", Q: pool[r.Intn(len(pool))]})
			}
		}
		cs.Tasks = append(cs.Tasks, ops)
	}
	return cs
}

type opOut struct {
	done    bool
	res     *updog.Result
	err     error
	schema  *updog.Schema
	resp    *pb.QueryResponse
	call    uint64
	ret     uint64
	hit     bool
	got     *roaring.Bitmap
	panicky string
}

// cloneAndScribble*: keep a private deep copy for the oracle, then overwrite what the library
// handed out. norace: if the library shares the memory with other callers, the verdict is
// the wrong answer they get, not a race report between two harness frames.
//
//go:norace
func cloneAndScribbleSchema(s *updog.Schema) *updog.Schema {
	if s == nil {
		return nil
	}
	c := &updog.Schema{}
	for _, col := range s.Columns {
		cc := updog.SchemaColumn{Name: col.Name}
		cc.Values = append(cc.Values, col.Values...)
		c.Columns = append(c.Columns, cc)
	}
	for i := range s.Columns {
		for j := range s.Columns[i].Values {
			s.Columns[i].Values[j].Value = "scribbled"
		}
		s.Columns[i].Name = "scribbled"
		if len(s.Columns[i].Values) > 0 {
			s.Columns[i].Values = s.Columns[i].Values[:len(s.Columns[i].Values)-1]
		}
	}
	if len(s.Columns) > 1 {
		s.Columns[0], s.Columns[len(s.Columns)-1] = s.Columns[len(s.Columns)-1], s.Columns[0]
	}
	return c
}

//go:norace
func cloneAndScribbleResult(r *updog.Result) *updog.Result {
	if r == nil {
		return nil
	}
	c := &updog.Result{Count: r.Count}
	for _, g := range r.Groups {
		cg := updog.ResultGroup{Count: g.Count}
		cg.Fields = append(cg.Fields, g.Fields...)
		c.Groups = append(c.Groups, cg)
	}
	for i := range r.Groups {
		for j := range r.Groups[i].Fields {
			r.Groups[i].Fields[j] = updog.ResultField{Column: "scribbled", Value: "scribbled"}
		}
		r.Groups[i].Count = 0
	}
	r.Count = 0
	return c
}

type promLikeHist struct{ n ctr }

func (h *promLikeHist) Observe(float64) { h.n.Inc() }

func runC04(c *Ctx, body json.RawMessage) *Verdict {
	v := OK()
	var cs C04Case
	if err := json.Unmarshal(body, &cs); err != nil {
		return v.Harness("decode: %v", err)
	}
	v.CaseKey = hashJSON(&cs)
	for _, ops := range cs.Tasks {
		for _, op := range ops {
			if op.Kind == "exec" && !op.Q.Valid() {
				return Invalid("malformed expression")
			}
			for _, q := range op.Batch {
				if !q.Valid() {
					return Invalid("malformed expression")
				}
			}
		}
	}
	if cs.Mode == "lru" {
		return runC04LRU(c, &cs, v)
	}
	rows := cs.Data.Expand()
	ref := NewRefIndex(rows)
	path := c.Path("idx.updog")
	if _, err := BuildIndex(cs.Writer, path, rows); err != nil {
		return v.Harness("build index: %v", err)
	}
	outs := make([][]opOut, len(cs.Tasks))
	var res *simrt.Result
	var openErr error
	var probe *cacheProbe
	wireErr := false
	c.Bubble(func() {
		var idx *updog.Index
		idx, probe, openErr = OpenIndex(path, cs.Open, c.Seed)
		if openErr != nil {
			return
		}
		defer idx.Close()
		var srv pb.QueryServiceServer
		if cs.Mode == "grpc" {
			srv = verifcli.NewServer(idx)
			if srv == nil {
				openErr = fmt.Errorf("the service value of `updog server` could not be built the way the program builds it")
				return
			}
		}
		// requests are marshalled and unmarshalled before the tasks start (stub transport)
		reqs := make([][]*pb.QueryRequest, len(cs.Tasks))
		uqs := make([][]*updog.Query, len(cs.Tasks))
		for t, ops := range cs.Tasks {
			outs[t] = make([]opOut, len(ops))
			reqs[t] = make([]*pb.QueryRequest, len(ops))
			uqs[t] = make([]*updog.Query, len(ops))
			for i, op := range ops {
				switch op.Kind {
				case "rpc":
					req := &pb.QueryRequest{}
					for _, q := range op.Batch {
						req.Queries = append(req.Queries, q.ToProto(0))
					}
					wire, err := proto.Marshal(req)
					dec := &pb.QueryRequest{}
					if err != nil || proto.Unmarshal(wire, dec) != nil {
						wireErr = true
						return
					}
					reqs[t][i] = dec
				case "exec":
					uqs[t][i] = op.Q.ToUpdog() // each task owns its Query values
				}
			}
		}
		cancelledCtx, cancelNow := context.WithCancel(context.Background())
		cancelNow()
		fns := make([]func(), len(cs.Tasks))
		for t := range cs.Tasks {
			t := t
			fns[t] = func() {
				for i, op := range cs.Tasks[t] {
					o := &outs[t][i]
					o.panicky = guard(func() {
						switch op.Kind {
						case "exec":
							o.res, o.err = idx.Execute(uqs[t][i])
							if cs.Scribble {
								o.res = cloneAndScribbleResult(o.res)
							}
						case "schema":
							o.schema = idx.GetSchema()
							if cs.Scribble {
								o.schema = cloneAndScribbleSchema(o.schema)
							}
						case "rpc":
							ctx := context.Background()
							if op.Cancelled {
								ctx = cancelledCtx
							}
							o.resp, o.err = srv.Query(ctx, reqs[t][i])
						}
					})
					o.done = true
				}
			}
		}
		res = simrt.Run(cs.Sched.Config(c), fns)
	})
	if openErr != nil {
		return v.Harness("open index: %v", openErr)
	}
	if wireErr {
		return Invalid("request not encodable as protobuf (invalid UTF-8 in a string field)")
	}
	if res == nil {
		return v.Harness("simulation did not run")
	}
	applySim(v, res)
	v.StateKey = simrt.Hash3(simrt.HashStr(cs.Mode+cs.Open.Class()+cs.Sched.Strategy), uint64(len(cs.Tasks)), uint64(res.Switches))
	v.NonTrivial = len(cs.Tasks) >= 2 && res.Switches >= 2
	if cs.Scribble {
		v.Count("probe_callers_overwrite_their_results", 1)
	}
	if res.Hang || res.Deadlock {
		v.Fatal = true
		return v.Violate("hang", "tasks never finished (hang=%v deadlock=%v)\n%s", res.Hang, res.Deadlock, trimStacks(res.Stacks))
	}
	for _, p := range res.Panics {
		return v.Violate("panic", "task %d panicked: %s\n%s", p.Task, p.Value, p.Stack)
	}
	refSchema := ref.Schema()
	for t, ops := range cs.Tasks {
		for i, op := range ops {
			o := &outs[t][i]
			if o.panicky != "" {
				return v.Violate("panic", "task %d op %d (%s) panicked: %s", t, i, op.Kind, o.panicky)
			}
			if !o.done {
				return v.Violate("lost-op", "task %d op %d never completed", t, i)
			}
			switch op.Kind {
			case "exec":
				if d := CompareResult(ref.Execute(op.Q), o.res, o.err); d != "" {
					return v.Violate("wrong-result", "task %d op %d: %s: %s", t, i, op.Q, d)
				}
			case "schema":
				if d := CompareSchema(refSchema, o.schema); d != "" {
					return v.Violate("wrong-schema", "task %d op %d: %s", t, i, d)
				}
			case "rpc":
				if op.Cancelled {
					v.Count("fault_rpc_with_cancelled_context", 1)
					if o.err != nil && o.resp == nil {
						continue // a client that gave up may be refused
					}
				}
				if d := compareBatch(ref, op.Batch, nil, o.resp, o.err); d != "" {
					return v.Violate("wrong-rpc-result", "task %d op %d: %s", t, i, d)
				}
			}
		}
	}
	if probe != nil && probe.lru != nil {
		if probe.hit.Load()+probe.miss.Load() != probe.get.Load() {
			return v.Violate("counters", "hits %d + misses %d != gets %d", probe.hit.Load(), probe.miss.Load(), probe.get.Load())
		}
		v.Count("cache_hits", probe.hit.Load())
	}
	return v
}

func trimStacks(s string) string {
	if len(s) > 4000 {
		return s[:4000] + "\n…"
	}
	return s
}

// compareBatch checks a QueryResponse against the reference for a batch. ids[i] is the id
// sent with query i (nil: all zero).
func compareBatch(ref *RefIndex, batch []*Query, ids []int32, resp *pb.QueryResponse, err error) string {
	anyErr := false
	for _, q := range batch {
		if ref.Execute(q).Err {
			anyErr = true
		}
	}
	if anyErr {
		if err == nil {
			return "batch with an invalid member returned a response instead of an error"
		}
		if resp != nil {
			return "error together with a response"
		}
		return ""
	}
	if err != nil {
		return "unexpected RPC error: " + err.Error()
	}
	if resp == nil {
		return "nil response"
	}
	if len(resp.Results) != len(batch) {
		return fmt.Sprintf("%d results for %d queries", len(resp.Results), len(batch))
	}
	for i, q := range batch {
		want := int32(i + 1)
		if ids != nil && ids[i] != 0 {
			want = ids[i]
		}
		r := resp.Results[i]
		if r.QueryId != want {
			return fmt.Sprintf("result %d has id %d, want %d", i, r.QueryId, want)
		}
		if d := compareProtoResult(ref.Execute(q), r); d != "" {
			return fmt.Sprintf("result %d (%s): %s", i, q, d)
		}
	}
	return ""
}

func compareProtoResult(ref *RefResult, r *pb.Result) string {
	if r.TotalCount != ref.Count {
		return fmt.Sprintf("total %d, want %d", r.TotalCount, ref.Count)
	}
	if len(r.Groups) != len(ref.Groups) {
		return fmt.Sprintf("%d groups, want %d", len(r.Groups), len(ref.Groups))
	}
	for i, g := range r.Groups {
		w := ref.Groups[i]
		if g.Count != w.Count {
			return fmt.Sprintf("group %d count %d, want %d", i, g.Count, w.Count)
		}
		if len(g.Fields) != len(w.Cols) {
			return fmt.Sprintf("group %d has %d fields, want %d", i, len(g.Fields), len(w.Cols))
		}
		for j, f := range g.Fields {
			if f.Column != w.Cols[j] || f.Value != w.Vals[j] {
				return fmt.Sprintf("group %d field %d is %s=%q, want %s=%q", i, j, f.Column, f.Value, w.Cols[j], w.Vals[j])
			}
		}
	}
	return ""
}

// ---- direct LRU workload, checked with porcupine against a forgetful register per key

type lruIn struct {
	put bool
	key uint64
	val int
}
type lruOut struct {
	hit bool
	val int
}

func runC04LRU(c *Ctx, cs *C04Case, v *Verdict) *Verdict {
	// all bitmaps exist before the tasks are spawned
	type slot struct {
		bm *roaring.Bitmap
		id int
	}
	bms := make([][]slot, len(cs.Tasks))
	byPtr := map[*roaring.Bitmap]int{}
	id := 0
	var sumComfort uint64
	nput, nget := 0, 0
	for t, ops := range cs.Tasks {
		bms[t] = make([]slot, len(ops))
		for i, op := range ops {
			if op.Kind != "put" {
				nget++
				continue
			}
			nput++
			id++
			bm := roaring.New()
			for k := 0; k < op.Size; k++ {
				bm.Add(uint32(id)<<16 | uint32(k*3))
			}
			bms[t][i] = slot{bm, id}
			byPtr[bm] = id
			sumComfort += bm.GetSizeInBytes() + 1024
		}
	}
	ample := sumComfort <= cs.LRUBytes
	outs := make([][]opOut, len(cs.Tasks))
	var res *simrt.Result
	var probe cacheProbe
	var cache *updog.LRUCache
	var finalBytes uint64
	var cGet, cPut, cHit, cMiss int64
	c.Bubble(func() {
		cache = updog.NewLRUCache(cs.LRUBytes, updog.WithCacheMetrics(&updog.CacheMetrics{
			CacheHit: &probe.hit, CacheMiss: &probe.miss, GetCall: &probe.get, PutCall: &probe.put}))
		fns := make([]func(), len(cs.Tasks))
		for t := range cs.Tasks {
			t := t
			outs[t] = make([]opOut, len(cs.Tasks[t]))
			fns[t] = func() {
				for i, op := range cs.Tasks[t] {
					o := &outs[t][i]
					o.call = simrt.Stamp()
					o.panicky = guard(func() {
						if op.Kind == "put" {
							cache.Put(op.Key, bms[t][i].bm)
						} else {
							o.got, o.hit = cache.Get(op.Key)
						}
					})
					o.ret = simrt.Stamp()
					o.done = true
				}
			}
		}
		res = simrt.Run(cs.Sched.Config(c), fns)
		if res.Hang || res.Deadlock {
			return
		}
		// counters are read before the probing Gets below add to them
		cGet, cPut, cHit, cMiss = probe.get.Load(), probe.put.Load(), probe.hit.Load(), probe.miss.Load()
		// byte bound at final quiescence — probed inside the bubble: whatever the cache uses for
		// synchronisation (e.g. a channel) belongs to the bubble it was created in
		for k := uint64(1); k <= 8; k++ {
			if bm, ok := cache.Get(k); ok {
				finalBytes += bm.GetSizeInBytes()
			}
		}
	})
	if res == nil {
		return v.Harness("simulation did not run")
	}
	applySim(v, res)
	v.StateKey = simrt.Hash3(simrt.HashStr("lru"+cs.Sched.Strategy), cs.LRUBytes, uint64(res.Switches))
	v.NonTrivial = len(cs.Tasks) >= 2 && res.Switches >= 2
	if res.Hang || res.Deadlock {
		v.Fatal = true
		return v.Violate("hang", "LRU tasks never finished\n%s", trimStacks(res.Stacks))
	}
	for _, p := range res.Panics {
		return v.Violate("panic", "task %d panicked: %s\n%s", p.Task, p.Value, p.Stack)
	}
	var hist []porcupine.Operation
	for t, ops := range cs.Tasks {
		for i, op := range ops {
			o := &outs[t][i]
			if o.panicky != "" {
				return v.Violate("panic", "task %d op %d panicked: %s", t, i, o.panicky)
			}
			in := lruIn{put: op.Kind == "put", key: op.Key, val: bms[t][i].id}
			out := lruOut{}
			if op.Kind == "get" && o.hit {
				vid, known := byPtr[o.got]
				if !known {
					return v.Violate("foreign-bitmap", "Get(%d) returned a bitmap that was never stored", op.Key)
				}
				out = lruOut{hit: true, val: vid}
			}
			hist = append(hist, porcupine.Operation{ClientId: t, Input: in, Call: int64(o.call), Output: out, Return: int64(o.ret)})
		}
	}
	model := porcupine.Model{
		Partition: func(h []porcupine.Operation) [][]porcupine.Operation {
			m := map[uint64][]porcupine.Operation{}
			var keys []uint64
			for _, op := range h {
				k := op.Input.(lruIn).key
				if _, ok := m[k]; !ok {
					keys = append(keys, k)
				}
				m[k] = append(m[k], op)
			}
			sort.Slice(keys, func(i, j int) bool { return keys[i] < keys[j] })
			var out [][]porcupine.Operation
			for _, k := range keys {
				out = append(out, m[k])
			}
			return out
		},
		Init: func() interface{} { return -1 },
		Step: func(state, input, output interface{}) (bool, interface{}) {
			st, in, out := state.(int), input.(lruIn), output.(lruOut)
			if in.put {
				return true, in.val
			}
			if out.hit {
				return out.val == st, st
			}
			// a miss: always legal for a cache that may evict; with ample room only before any Put
			return !ample || st == -1, st
		},
		Equal: func(a, b interface{}) bool { return a.(int) == b.(int) },
	}
	switch porcupine.CheckOperationsTimeout(model, hist, 20*time.Second) {
	case porcupine.Illegal:
		return v.Violate("lru-not-linearizable", "LRU history of %d ops is not linearizable against the forgetful-register model (ample=%v)", len(hist), ample)
	case porcupine.Unknown:
		v.Count("porcupine_timeouts", 1)
	}
	v.Count("porcupine_histories", 1)
	if cGet != int64(nget) || cPut != int64(nput) || cHit+cMiss != cGet {
		return v.Violate("counters", "counters get=%d put=%d hit=%d miss=%d, events get=%d put=%d", cGet, cPut, cHit, cMiss, nget, nput)
	}
	if finalBytes > cs.LRUBytes {
		return v.Violate("byte-bound", "retrievable bitmaps hold %d bytes, capacity %d", finalBytes, cs.LRUBytes)
	}
	return v
}

// ------------------------------------------------------------------- C18

type C18Case struct {
	Writer  string `json:"writer"`            // mem | big
	Writer2 string `json:"writer2,omitempty"` // a second writer instance used by the odd tasks
	Tasks  [][]Row  `json:"tasks"`
	Sched  SchedCfg `json:"sched"`
	Scribble bool   `json:"scribble,omitempty"` // every task overwrites its map as soon as AddRow has returned
}

func genC18(c *Ctx) any {
	r := c.Rand("c18")
	cs := &C18Case{Writer: []string{"mem", "big"}[r.Intn(2)]}
	if r.Chance(1, 5) {
		cs.Writer2 = []string{"mem", "big"}[r.Intn(2)]
	}
	maxT := 8
	if c.Thorough() {
		maxT = 32
	}
	nt := r.Range(2, 4)
	if r.Chance(1, 4) {
		nt = r.Range(2, maxT)
	}
	per := r.Range(1, 8)
	if r.Chance(1, 12) {
		// cross the big writer's 1000-row commit
		per = 1000/nt + r.Range(1, 20)
	}
	cs.Scribble = r.Chance(1, 3)
	manyValues := r.Chance(1, 100) // more than 65 536 values in one writer: rows of 300 columns
	manyRows := !manyValues && r.Chance(1, 600) // more than 65 536 rows in one writer
	if manyRows && r.Chance(3, 4) {
		cs.Writer = "mem"
	}
	thin := false
	if manyValues {
		nt = r.Range(2, 4)
		per = 66000/250/nt + r.Range(1, 4)
		cs.Writer2 = ""
		if cs.Writer == "big" {
			// the disk-backed writer keeps a row batch in ONE bbolt transaction (quadratic in its size): many
			// thin rows instead of few wide ones
			thin = true
			per = 66000/4/nt + r.Range(1, 40)
		}
	}
	if manyRows {
		nt = r.Range(2, 3)
		per = 65536/nt + r.Range(5, 300)
		cs.Writer2 = ""
	}
	vals := []string{"x", "y", "z", "", "ü"}
	wide := r.Chance(1, 6) || (manyValues && !thin) // some rows with hundreds of columns
	empty := r.Chance(1, 4) // some rows without any column (they cannot carry a tag; ids and the row universe still count them)
	for t := 0; t < nt; t++ {
		var rows []Row
		for k := 0; k < per; k++ {
			if thin {
				rows = append(rows, Row{{"tag", S(fmt.Sprintf("t%d_%d", t, k))}, {"a", S(vals[k%3])}, {"b", S(vals[(k/3)%3])}, {"c", S(vals[(k/9)%5])}})
				continue
			}
			if manyRows {
				// a constant column (set on runs of consecutive rows whatever the interleaving) and a slowly changing one
				rows = append(rows, Row{{"tag", S(fmt.Sprintf("t%d_%d", t, k))}, {"src", "csv"}, {"blk", S(fmt.Sprint(k / 5000))}})
				continue
			}
			if empty && !manyValues && r.Chance(1, 3) {
				rows = append(rows, Row{})
				continue
			}
			row := Row{{"tag", S(fmt.Sprintf("t%d_%d", t, k))}}
			if (manyValues && !thin) || (wide && per <= 20 && r.Chance(1, 4)) {
				for w, nw := 0, r.Range(250, 330); w < nw; w++ {
					row = append(row, [2]S{S(fmt.Sprintf("w%d", w)), S(vals[w%3])})
				}
			}
			for ci, col := range []string{"a", "b", "c"} {
				if r.Chance(2, 3) {
					row = append(row, [2]S{S(col), S(vals[(r.Intn(len(vals))+ci)%len(vals)])})
				}
			}
			rows = append(rows, row)
		}
		cs.Tasks = append(cs.Tasks, rows)
	}
	cs.Sched = genSched(c.Rand("sched"), int64(nt*per*40))
	if per > 100 || manyValues {
		cs.Sched = SchedCfg{Strategy: "rand", P: []uint64{2, 5, 20}[r.Intn(3)]}
	}
	if manyRows {
		cs.Sched = SchedCfg{Strategy: "rand", P: []uint64{1, 2, 5}[r.Intn(3)]}
	}
	return cs
}

func runC18(c *Ctx, body json.RawMessage) *Verdict {
	v := OK()
	var cs C18Case
	if err := json.Unmarshal(body, &cs); err != nil {
		return v.Harness("decode: %v", err)
	}
	v.CaseKey = hashJSON(&cs)
	kinds := []string{cs.Writer}
	if cs.Writer2 != "" {
		kinds = append(kinds, cs.Writer2) // two writer instances fed concurrently: task t uses writer t%2
	}
	paths := make([]string, len(kinds))
	for k := range kinds {
		paths[k] = c.Path(fmt.Sprintf("out-%d.updog", k))
	}
	type addOut struct {
		id        uint32
		err       error
		call, ret uint64
		panicky   string
	}
	outs := make([][]addOut, len(cs.Tasks))
	maps := make([][]map[string]string, len(cs.Tasks))
	total := 0
	for t, rows := range cs.Tasks {
		outs[t] = make([]addOut, len(rows))
		maps[t] = make([]map[string]string, len(rows))
		for i, r := range rows {
			maps[t][i] = r.Map()
		}
		total += len(rows)
	}
	var res *simrt.Result
	var setupErr error
	flushErr := make([]error, len(kinds))
	simrt.SetMapSeed(c.Seed | 1)
	c.Bubble(func() {
		ws := make([]rowAdder, len(kinds))
		flushes := make([]func() error, len(kinds))
		for k, kind := range kinds {
			switch kind {
			case "big":
				tdb, err := bbolt.Open(c.Path(fmt.Sprintf("temp-%d.db", k)), 0o600, nil)
				if err != nil {
					setupErr = err
					return
				}
				defer tdb.Close()
				db, err := bbolt.Open(paths[k], 0o644, nil)
				if err != nil {
					setupErr = err
					return
				}
				defer db.Close()
				bw, err := updog.NewBigIndexWriter(db, tdb)
				if err != nil {
					setupErr = err
					return
				}
				ws[k], flushes[k] = bw, bw.Flush
			default:
				mw := updog.NewIndexWriter(paths[k])
				ws[k], flushes[k] = mw, mw.Flush
			}
		}
		fns := make([]func(), len(cs.Tasks))
		for t := range cs.Tasks {
			t := t
			w := ws[t%len(ws)]
			fns[t] = func() {
				for i := range cs.Tasks[t] {
					o := &outs[t][i]
					o.call = simrt.Stamp()
					o.panicky = guard(func() { o.id, o.err = w.AddRow(maps[t][i]) })
					o.ret = simrt.Stamp()
					if cs.Scribble {
						// the map is the caller's again: a writer that kept it reads junk (and races with this)
						for k := range maps[t][i] {
							maps[t][i][k] = "scribbled"
						}
						maps[t][i]["scribbled-column"] = "x"
					}
				}
			}
		}
		res = simrt.Run(cs.Sched.Config(c), fns)
		if res.Hang || res.Deadlock {
			return
		}
		for k := range flushes {
			flushErr[k] = flushes[k]()
		}
	})
	if setupErr != nil {
		return v.Harness("setup: %v", setupErr)
	}
	if res == nil {
		return v.Harness("simulation did not run")
	}
	applySim(v, res)
	v.StateKey = simrt.Hash3(simrt.HashStr(cs.Writer+"+"+cs.Writer2+cs.Sched.Strategy), uint64(len(cs.Tasks))<<20|uint64(total), uint64(res.Switches))
	v.NonTrivial = len(cs.Tasks) >= 2 && res.Switches >= 2
	if total > 1000 {
		v.Count("probe_crossed_1000_rows", 1)
	}
	if total > 65536 {
		v.Count("probe_crossed_65536_rows", 1)
	}
	if len(kinds) > 1 {
		v.Count("probe_two_writer_instances", 1)
	}
	if res.Hang || res.Deadlock {
		v.Fatal = true
		return v.Violate("hang", "AddRow tasks never finished\n%s", trimStacks(res.Stacks))
	}
	for _, p := range res.Panics {
		return v.Violate("panic", "task %d panicked: %s\n%s", p.Task, p.Value, p.Stack)
	}
	type ev struct {
		id        uint32
		call, ret uint64
		row       Row
	}
	for k := range kinds {
		var evs []ev
		for t := range cs.Tasks {
			if t%len(kinds) != k {
				continue
			}
			for i := range cs.Tasks[t] {
				o := outs[t][i]
				if o.panicky != "" {
					return v.Violate("panic", "AddRow panicked: %s", o.panicky)
				}
				if o.err != nil {
					return v.Violate("addrow-error", "AddRow failed: %v", o.err)
				}
				evs = append(evs, ev{o.id, o.call, o.ret, cs.Tasks[t][i]})
			}
		}
		n := len(evs)
		sort.Slice(evs, func(i, j int) bool { return evs[i].id < evs[j].id })
		for i, e := range evs {
			if e.id != uint32(i) {
				return v.Violate("ids", "writer %d (%s): returned ids are not exactly 0..%d: position %d holds id %d", k, kinds[k], n-1, i, e.id)
			}
		}
		// fetch-and-increment linearizability: real-time order must be respected by the ids
		var maxCall uint64
		var maxCallID uint32
		for _, e := range evs {
			if maxCall > e.ret {
				return v.Violate("id-order", "AddRow returning id %d completed (stamp %d) before the call returning the smaller id %d began (stamp %d)", e.id, e.ret, maxCallID, maxCall)
			}
			if e.call > maxCall {
				maxCall, maxCallID = e.call, e.id
			}
		}
		if flushErr[k] != nil {
			return v.Violate("flush-error", "Flush failed: %v", flushErr[k])
		}
		var ordered []Row
		for _, e := range evs {
			ordered = append(ordered, e.row)
		}
		ref := NewRefIndex(ordered)
		idx, err := updog.OpenIndex(paths[k])
		if err != nil {
			return v.Violate("open-error", "opening the flushed index failed: %v", err)
		}
		bad := func() *Verdict {
			if d := CompareSchema(ref.Schema(), idx.GetSchema()); d != "" {
				return v.Violate("wrong-schema", "%s", d)
			}
			check := func(q *Query) string {
				res, err := idx.Execute(q.ToUpdog())
				return CompareResult(ref.Execute(q), res, err)
			}
			if d := check(&Query{Expr: Not(Eq("tag", "∅"))}); d != "" {
				return v.Violate("row-universe", "count(^tag=∅): %s", d)
			}
			step := 1
			if n > 300 {
				step = n / 150
			}
			for i := 0; i < len(evs); i += step {
				row := evs[i].row
				if len(row) == 0 {
					continue
				}
				tag := string(row[0][1])
				if d := check(&Query{Expr: Eq("tag", tag)}); d != "" {
					return v.Violate("row-lost-or-duplicated", "writer %d (%s): count(tag=%s): %s", k, kinds[k], tag, d)
				}
				for ki, kv := range row[1:] {
					if ki > 12 && ki%25 != 0 {
						continue // wide rows: a sample of their columns
					}
					if d := check(&Query{Expr: And(Eq("tag", tag), Eq(string(kv[0]), string(kv[1])))}); d != "" {
						return v.Violate("row-mixed", "count(tag=%s & %s=%q): %s", tag, kv[0], kv[1], d)
					}
				}
			}
			for _, col := range []string{"a", "b", "c", "src", "blk", "w0", "w149", "w249"} {
				q := &Query{Expr: Not(Eq("tag", "∅")), GroupBy: []S{S(col)}}
				if ref.Execute(q).Err {
					continue
				}
				if d := check(q); d != "" {
					return v.Violate("wrong-groups", "group by %s: %s", col, d)
				}
			}
			return nil
		}()
		idx.Close()
		if bad != nil {
			return bad
		}
		_ = os.Remove(paths[k])
	}
	return v
}
