package verifsim

import (
	"encoding/json"
	"fmt"
	"os"
	"path/filepath"
	"regexp"
	"runtime"
	"runtime/debug"
	"sort"
	"strings"
	"testing"
	"testing/synctest"
	"time"

	"verif/simrt"
)

// Case is the fully materialised description of one simulated run: the replay file.
type Case struct {
	Property string          `json:"property"`
	Tier     string          `json:"tier"`
	Seed     uint64          `json:"seed"`  // run seed (all generator streams derive from it)
	Index    int             `json:"index"` // position in the batch (informational)
	Body     json.RawMessage `json:"body"`
	Sched    *simrt.Trace    `json:"sched,omitempty"` // recorded schedule; replay uses it instead of the seed
	Note     string          `json:"note,omitempty"`
}

// Verdict is the outcome of one run.
type Verdict struct {
	Class      string           `json:"class"` // ok | violation | harness
	Sig        string           `json:"sig,omitempty"`
	Detail     string           `json:"detail,omitempty"`
	NonTrivial bool             `json:"nontrivial"`
	CaseKey    uint64           `json:"case_key"`
	StateKey   uint64           `json:"state_key"`
	IL         uint64           `json:"il,omitempty"`
	Counters   map[string]int64 `json:"counters,omitempty"`
	SimNs      int64            `json:"sim_ns,omitempty"`
	Fatal      bool             `json:"fatal,omitempty"`
	Trace      *simrt.Trace     `json:"-"`
}

func (v *Verdict) Count(k string, n int64) {
	if v.Counters == nil {
		v.Counters = map[string]int64{}
	}
	v.Counters[k] += n
}

func OK() *Verdict { return &Verdict{Class: "ok"} }

// Invalid marks a case that is outside the property's quantifier (only shrink candidates
// can be): it counts as "not the violation" and is never reported.
func Invalid(why string) *Verdict { return &Verdict{Class: "invalid", Detail: why} }

func (v *Verdict) Violate(sig, format string, a ...any) *Verdict {
	if v.Class == "violation" {
		return v // keep the first
	}
	v.Class = "violation"
	v.Sig = sig
	v.Detail = fmt.Sprintf(format, a...)
	if len(v.Detail) > 6000 {
		// head and tail: what went wrong usually stands at the end, after the (possibly very long) input
		v.Detail = v.Detail[:4000] + " …[" + fmt.Sprint(len(v.Detail)-6000) + " bytes]… " + v.Detail[len(v.Detail)-2000:]
	}
	return v
}

func (v *Verdict) Harness(format string, a ...any) *Verdict {
	v.Class = "harness"
	v.Detail = fmt.Sprintf(format, a...)
	return v
}

// Ctx is what a world gets for one run.
type Ctx struct {
	childTmp string // TMPDIR handed to child processes when it is not Dir
	T    *testing.T
	Seed uint64
	Tier string
	Dir  string // private scratch directory of this run
	Prop string
	Index int
	// Replay is the recorded schedule of the case being replayed (nil: schedule from the seed)
	Replay *simrt.Trace
}

func (c *Ctx) Rand(label string) *simrt.Rand { return simrt.Sub(c.Seed, label) }
func (c *Ctx) Thorough() bool                { return c.Tier == "thorough" }
func (c *Ctx) Path(name string) string       { return filepath.Join(c.Dir, name) }

// Bubble runs f inside a synctest bubble and returns the text of the end-of-bubble
// deadlock panic, if any (goroutines left blocked).
func (c *Ctx) Bubble(f func()) (panicText string) {
	// synctest.Test ends with t.FailNow() (a Goexit) when the race detector reported
	// something during the bubble; run it on a helper goroutine so that only the helper
	// exits and the worker keeps its verdict.
	done := make(chan string, 1)
	go func() {
		text := ""
		defer func() {
			if r := recover(); r != nil {
				text = fmt.Sprint(r)
			}
			done <- text
		}()
		synctest.Test(c.T, func(t *testing.T) { f() })
	}()
	return <-done
}

// World is one simulated world: a generator of cases and an executor with oracles.
type World struct {
	Gen func(c *Ctx) any
	Run func(c *Ctx, body json.RawMessage) *Verdict
	// Races: a data race in the code under test is a violation of this property.
	Races bool
}

var worlds = map[string]*World{}

func register(prop string, w *World) { worlds[prop] = w }

// ------------------------------------------------------------------ worker

type workerArgs struct {
	Mode     string `json:"mode"` // gen | case
	Property string `json:"property"`
	Tier     string `json:"tier"`
	Base     uint64 `json:"base"`   // VERIF_SEED
	Start    int    `json:"start"`  // first run index of this worker
	Stride   int    `json:"stride"` // index step (number of workers)
	Count    int    `json:"count"`  // total runs in the batch (all workers)
	Worker   int    `json:"worker"`
	OutDir   string `json:"outdir"`
	CaseFile string `json:"casefile"`
	WallCapS int    `json:"wallcap_s"` // stop generating after this many seconds (0 = none)
	RunWallS int    `json:"runwall_s"` // per-run wall watchdog
	RaceLog  string `json:"racelog"`   // GORACE log_path prefix
	Samples  int    `json:"samples"`
	// KnownSigs: signatures listed as known findings; they are recorded once and do not make
	// the worker stop early
	KnownSigs []string `json:"known_sigs"`
}

type workerStats struct {
	Worker     int              `json:"worker"`
	Runs       int              `json:"runs"`
	Next       int              `json:"next"` // next run index this worker would execute
	Ended      string           `json:"ended"`
	NonTrivial []uint64         `json:"nontrivial"`
	States     []uint64         `json:"states"`
	ILs        []uint64         `json:"ils"`
	Counters   map[string]int64 `json:"counters"`
	Samples    []json.RawMessage `json:"samples"`
	SimNs      int64            `json:"sim_ns"`
	WallS      float64          `json:"wall_s"`
	Violations int              `json:"violations"`
}

// exit codes of the worker: 0 = range completed, 3 = stopped early after persisting a
// verdict, 12 = harness trouble. Anything else (2 = Go runtime fatal error or uncaught
// panic, 66 = race detector exit, signals) is the death of the process while running the
// code under test and is attributed to the case in progress.
const exitHarness = 12

func runSeed(base uint64, prop string, i int) uint64 {
	return simrt.Hash3(base, simrt.HashStr(prop), uint64(i)) | 1
}

var updogFrame = regexp.MustCompile(`github\.com/akrennmair/updog(/[a-z0-9/]+)?\.[^\s]*`)

// raceText returns what the race detector logged since the last call.
type raceReader struct {
	prefix string
	off    int64
}

func (rr *raceReader) read() string {
	if rr.prefix == "" {
		return ""
	}
	path := fmt.Sprintf("%s.%d", rr.prefix, os.Getpid())
	b, err := os.ReadFile(path)
	if err != nil || int64(len(b)) <= rr.off {
		return ""
	}
	s := string(b[rr.off:])
	rr.off = int64(len(b))
	return s
}

// raceSig extracts the first frame of the code under test from a race report.
func raceSig(text string) string {
	for _, m := range updogFrame.FindAllString(text, -1) {
		if strings.Contains(m, "/verifsim") {
			continue
		}
		m = strings.TrimPrefix(m, "github.com/akrennmair/updog")
		m = strings.TrimSuffix(m, "()")
		if i := strings.Index(m, "()"); i >= 0 {
			m = m[:i]
		}
		return m
	}
	return ""
}

// Execute runs one case with all monitors (panic, race delta, wall watchdog).
func Execute(t *testing.T, c *Case, dir string, rr *raceReader, runWall time.Duration, progress func(string)) *Verdict {
	w := worlds[c.Property]
	if w == nil {
		return (&Verdict{}).Harness("no world for property %q", c.Property)
	}
	if err := os.MkdirAll(dir, 0o755); err != nil {
		return (&Verdict{}).Harness("mkdir: %v", err)
	}
	defer os.RemoveAll(dir)
	ctx := &Ctx{T: t, Seed: c.Seed, Tier: c.Tier, Dir: dir, Prop: c.Property, Index: c.Index, Replay: c.Sched}
	if len(c.Body) == 0 || string(c.Body) == "null" {
		var body any
		if p := guard(func() { body = w.Gen(ctx) }); p != "" {
			return (&Verdict{}).Harness("generator panicked: %s", p)
		}
		b, err := json.Marshal(body)
		if err != nil {
			return (&Verdict{}).Harness("marshal case: %v", err)
		}
		c.Body = b
	}
	if f := os.Getenv("VERIF_DUMPCASE"); f != "" {
		_ = os.WriteFile(f, c.Body, 0o644) // debugging aid: the materialised case, before it runs
	}
	wd := time.AfterFunc(runWall, func() {
		buf := make([]byte, 1<<20)
		n := runtime.Stack(buf, true)
		progress(fmt.Sprintf("WALL-WATCHDOG after %v\n%s", runWall, buf[:n]))
		os.Exit(exitHarness)
	})
	defer wd.Stop()
	before := simrt.RaceErrors()
	// map iteration inside the code under test is a function of the run's seed (rewrite R5)
	simrt.SetMapSeed(simrt.Mix(c.Seed^0x6d6170) | 1)
	var v *Verdict
	done := make(chan *Verdict, 1)
	go func() {
		var rv *Verdict
		defer func() {
			if r := recover(); r != nil {
				rv = (&Verdict{}).Harness("harness panic: %v\n%s", r, debug.Stack())
			}
			done <- rv
		}()
		rv = w.Run(ctx, c.Body)
	}()
	stopMon := make(chan struct{})
	stuck := make(chan string, 1)
	go lockHangMonitor(stopMon, stuck)
	select {
	case v = <-done:
		close(stopMon)
	case text := <-stuck:
		// the goroutines of the code under test wait for each other on locks no scheduler of ours is involved
		// in: no schedule can free them. The run is abandoned (its goroutines cannot be unwound) and the worker
		// process ends after this verdict.
		v = OK()
		v.CaseKey = simrt.HashStr(string(c.Body))
		v.NonTrivial = true
		v.Violate("hang-on-lock", "the call never returns: goroutines of the code under test have been blocked on locks for 20 s of wall time, none of them runnable, none parked by the scheduler\n%s", text)
		v.Fatal = true
		return v
	}
	simrt.SetMapSeed(0)
	simrt.AttachDisk(nil)
	if d := simrt.RaceErrors() - before; d > 0 && v.Class == "violation" && v.Fatal && strings.Contains(v.Sig, "hang") {
		// the run was abandoned with its tasks stuck in the middle of things: what the detector says about the
		// harness reading their half-written notes is no news, the hang is the verdict (and the process ends)
		_ = rr.read()
		v.Count("race_reports_after_hang_ignored", int64(d))
	} else if d > 0 {
		text := rr.read()
		sig := raceSig(text)
		v.Count("race_reports", int64(d))
		switch {
		case sig == "":
			v.Harness("race report without a frame of the code under test:\n%s", text)
		case !w.Races:
			v.Harness("race report in a world without concurrency:\n%s", text)
		default:
			if len(text) > 5000 {
				text = text[:5000]
			}
			prev := ""
			if v.Class == "violation" {
				prev = "\n(also: " + v.Sig + ": " + v.Detail + ")"
				v.Class = "ok"
			}
			v.Violate("race", "data race (first frame of updog: %s)\n%s%s", sig, text, prev)
		}
		v.Fatal = true // the detector de-duplicates reports per process: continue in a fresh one
	}
	return v
}

// lockHangMonitor watches, in wall time, for a deadlock on locks the simulation does not own (sync.Mutex and
// sync.RWMutex inside the code under test or bbolt): every goroutine that has a frame of the code under test is
// blocked - at least one of them in Mutex/RWMutex.Lock - none is runnable, in a system call or asleep, and none is
// parked by the simulated scheduler (a task parked while it holds such a lock is the simulation's doing, not the
// code's, and stays harness trouble). The picture has to stay exactly the same for 20 s.
func lockHangMonitor(stop <-chan struct{}, found chan<- string) {
	tick := time.NewTicker(2500 * time.Millisecond)
	defer tick.Stop()
	last, since := "", time.Now()
	for {
		select {
		case <-stop:
			return
		case <-tick.C:
			sig, text := lockStuck()
			if sig == "" {
				last = ""
				continue
			}
			if sig != last {
				last, since = sig, time.Now()
				continue
			}
			if time.Since(since) >= 20*time.Second {
				found <- text
				return
			}
		}
	}
}

var underTestFrames = []string{"github.com/akrennmair/updog.", "github.com/akrennmair/updog/driver.", "github.com/akrennmair/updog/internal/",
	"github.com/akrennmair/updog/cmd/", "github.com/akrennmair/updog/verifcli.", "go.etcd.io/bbolt."}

func lockStuck() (sig, text string) {
	buf := make([]byte, 8<<20)
	n := runtime.Stack(buf, true)
	if n >= len(buf)-1 {
		return "", ""
	}
	var sigs, texts []string
	onLock := false
	for _, g := range strings.Split(string(buf[:n]), "\n\n") {
		head, body, _ := strings.Cut(g, "\n")
		first := -1 // offset of the innermost frame of the code under test
		for _, f := range underTestFrames {
			i := strings.Index("\n"+body, "\n"+f)
			if i >= 0 && (first < 0 || i < first) {
				first = i
			}
		}
		if first < 0 {
			continue
		}
		if i := strings.Index("\n"+body, "\nverif/simrt."); i >= 0 && i < first {
			return "", "" // parked or spinning inside the simulation's runtime, called from the code under test
		}
		lb, rb := strings.Index(head, "["), strings.LastIndex(head, "]")
		if lb < 0 || rb < lb {
			return "", ""
		}
		state, _, _ := strings.Cut(head[lb+1:rb], ",")
		state = strings.TrimSuffix(strings.TrimSpace(state), " (durable)")
		switch state {
		case "sync.Mutex.Lock", "sync.RWMutex.Lock", "sync.RWMutex.RLock":
			onLock = true
		case "chan send", "chan receive", "select", "sync.Cond.Wait", "sync.WaitGroup.Wait", "chan send (nil chan)", "chan receive (nil chan)", "select (no cases)":
		default:
			return "", "" // running, runnable, in a system call, asleep: may still move
		}
		sigs = append(sigs, head[:lb]+state)
		if len(g) > 2500 {
			g = g[:2500]
		}
		texts = append(texts, g)
	}
	if !onLock {
		return "", ""
	}
	return strings.Join(sigs, "|"), strings.Join(texts, "\n\n")
}

func contains(xs []string, x string) bool {
	for _, y := range xs {
		if y == x {
			return true
		}
	}
	return false
}

func writeJSON(path string, v any) {
	b, _ := json.MarshalIndent(v, "", " ")
	tmp := path + ".tmp"
	_ = os.WriteFile(tmp, b, 0o644)
	_ = os.Rename(tmp, path)
}

func uniq(xs []uint64) []uint64 {
	sort.Slice(xs, func(i, j int) bool { return xs[i] < xs[j] })
	out := xs[:0]
	for i, x := range xs {
		if i == 0 || x != xs[i-1] {
			out = append(out, x)
		}
	}
	return out
}

// WorkerMain is the body of the single test function of the worker binary.
func WorkerMain(t *testing.T) {
	raw := os.Getenv("VERIFSIM_ARGS")
	if raw == "" {
		t.Skip("VERIFSIM_ARGS not set")
	}
	var a workerArgs
	if err := json.Unmarshal([]byte(raw), &a); err != nil {
		fmt.Fprintln(os.Stderr, "bad VERIFSIM_ARGS:", err)
		os.Exit(exitHarness)
	}
	if a.RunWallS == 0 {
		a.RunWallS = 180
	}
	rr := &raceReader{prefix: a.RaceLog}
	progressFile := filepath.Join(a.OutDir, fmt.Sprintf("progress-%d.txt", a.Worker))
	progress := func(s string) { _ = os.WriteFile(progressFile, []byte(s), 0o644) }

	if a.Mode == "case" {
		b, err := os.ReadFile(a.CaseFile)
		if err != nil {
			fmt.Fprintln(os.Stderr, err)
			os.Exit(exitHarness)
		}
		var c Case
		if err := json.Unmarshal(b, &c); err != nil {
			// a shrink candidate that no longer decodes is simply "not the same violation"
			writeJSON(filepath.Join(a.OutDir, fmt.Sprintf("verdict-%d.json", a.Worker)), &Verdict{Class: "invalid", Detail: err.Error()})
			os.Exit(0)
		}
		progress("case " + a.CaseFile)
		v := Execute(t, &c, filepath.Join(a.OutDir, fmt.Sprintf("tmp-%d", a.Worker)), rr, time.Duration(a.RunWallS)*time.Second, progress)
		writeJSON(filepath.Join(a.OutDir, fmt.Sprintf("verdict-%d.json", a.Worker)), v)
		os.Exit(0)
	}

	st := &workerStats{Worker: a.Worker, Counters: map[string]int64{}, Ended: "complete"}
	t0 := time.Now()
	statsFile := filepath.Join(a.OutDir, fmt.Sprintf("stats-%d-%d.json", a.Worker, a.Start))
	finish := func(code int) {
		st.NonTrivial = uniq(st.NonTrivial)
		st.States = uniq(st.States)
		st.ILs = uniq(st.ILs)
		st.WallS = time.Since(t0).Seconds()
		writeJSON(statsFile, st)
		os.Exit(code)
	}
	var runlog *os.File
	if dir := os.Getenv("VERIF_RUNLOG"); dir != "" {
		runlog, _ = os.OpenFile(filepath.Join(dir, fmt.Sprintf("runlog-%s-%d.txt", a.Property, a.Worker)), os.O_CREATE|os.O_APPEND|os.O_WRONLY, 0o644)
	}
	i := a.Start
	for ; i < a.Count; i += a.Stride {
		if a.WallCapS > 0 && time.Since(t0) > time.Duration(a.WallCapS)*time.Second {
			st.Ended = "wallcap"
			break
		}
		c := &Case{Property: a.Property, Tier: a.Tier, Seed: runSeed(a.Base, a.Property, i), Index: i}
		progress(fmt.Sprintf("run %d seed %d", i, c.Seed))
		tRun := time.Now()
		v := Execute(t, c, filepath.Join(a.OutDir, fmt.Sprintf("tmp-%d", a.Worker), fmt.Sprint(i)), rr, time.Duration(a.RunWallS)*time.Second, progress)
		st.Runs++
		st.Next = i + a.Stride
		if runlog != nil {
			fmt.Fprintf(runlog, "%d %d %s %s y=%d d=%d s=%d a=%d il=%d", i, c.Seed, v.Class, v.Sig, v.Counters["yields"], v.Counters["sched_decisions"], v.Counters["context_switches"], v.Counters["arrivals"], v.IL)
			if os.Getenv("VERIF_RUNLOG_TIMES") != "" {
				fmt.Fprintf(runlog, " ms=%d", time.Since(tRun).Milliseconds()) // off for the determinism self-test, which diffs these logs
			}
			fmt.Fprintln(runlog)
		}
		st.SimNs += v.SimNs
		for k, n := range v.Counters {
			st.Counters[k] += n
		}
		if v.NonTrivial {
			st.NonTrivial = append(st.NonTrivial, v.CaseKey)
		}
		if v.StateKey != 0 {
			st.States = append(st.States, v.StateKey)
		}
		if v.IL != 0 {
			st.ILs = append(st.ILs, v.IL)
		}
		if len(st.Samples) < a.Samples {
			cb, _ := json.Marshal(c)
			if len(cb) > 6000 {
				// too long to print in full: keep the head of the materialised case
				cb, _ = json.Marshal(map[string]any{"property": c.Property, "seed": c.Seed, "index": c.Index, "tier": c.Tier,
					"truncated_bytes": len(cb), "body_head": string(c.Body[:min(len(c.Body), 3000)])})
			}
			st.Samples = append(st.Samples, cb)
		}
		switch v.Class {
		case "violation":
			if contains(a.KnownSigs, v.Sig) {
				st.Counters["known_finding_"+v.Sig]++
				if st.Counters["known_finding_"+v.Sig] > 1 {
					break
				}
				writeJSON(filepath.Join(a.OutDir, fmt.Sprintf("viol-%d.json", i)), map[string]any{"case": c, "verdict": v})
				break
			}
			st.Violations++
			if v.Trace != nil {
				c.Sched = v.Trace
			}
			writeJSON(filepath.Join(a.OutDir, fmt.Sprintf("viol-%d.json", i)), map[string]any{"case": c, "verdict": v})
			if v.Fatal {
				st.Ended = "fatal-verdict"
				finish(3)
			}
			if st.Violations >= 5 {
				st.Ended = "many-violations"
				finish(3)
			}
		case "harness":
			writeJSON(filepath.Join(a.OutDir, fmt.Sprintf("harness-%d.json", i)), map[string]any{"case": c, "verdict": v})
			st.Ended = "harness"
			finish(exitHarness)
		}
	}
	st.Next = i
	finish(0)
}
