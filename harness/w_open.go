package verifsim

// C15 — opening fails cleanly on non-index files and always releases the file.
// Faults are damaged durable states (applied at key/value level through bbolt's API, so
// the files stay structurally valid bbolt files), special files, and an injected open
// error; they are combined with open/close/close-again/reopen histories that run as a task
// under the fake-clock hang watchdog. After every failed open and every Close the file
// lock is probed with a non-blocking exclusive flock on a new descriptor.

import (
	"bytes"
	"encoding/gob"
	"encoding/json"
	"fmt"
	"os"
	"sort"
	"strconv"
	"strings"

	"github.com/RoaringBitmap/roaring"
	"github.com/akrennmair/updog"
	"go.etcd.io/bbolt"
	"verif/simrt"
)

var damageKinds = []string{
	"del-bucket", "del-S", "S-garbage", "S-trunc", "S-empty", "del-I", "I-0", "I-1", "I-2", "I-3", "I-5", "I-8",
	"V-garbage", "V-trunc", "V-empty", "X-unknown-key", "X-short-V-key", "X-long-V-key",
	"X-unknown-V-garbage", // a well-formed bitmap key the schema does not know, with an undecodable value
	"S-swap",              // the schema replaced by a decodable one that lacks a column
	"V-del",               // one bitmap key removed: the schema names a value that has no bitmap (not listed by the statement: no panic, no hang, lock released whatever the outcome)
}

var specialFiles = []string{"empty-bbolt", "zero-byte", "garbage", "directory", "nonexistent", "open-error"}

type OOp struct {
	Kind string `json:"kind"`          // open | close | close2
	Opt  string `json:"opt,omitempty"` // ondemand | preload | cached
	File int    `json:"file"`          // 0 = the damaged/special file, 1 = an intact index
}

type C15Case struct {
	Data    Dataset  `json:"data"`
	Damage  []string `json:"damage,omitempty"`
	Special string   `json:"special,omitempty"`
	Hist    []OOp    `json:"hist"`
}

func init() {
	register("C15", &World{Gen: genC15, Run: runC15})
}

func damageSubsets() [][]string {
	var out [][]string
	for i := range damageKinds {
		out = append(out, []string{damageKinds[i]})
	}
	for i := range damageKinds {
		for j := i + 1; j < len(damageKinds); j++ {
			out = append(out, []string{damageKinds[i], damageKinds[j]})
		}
	}
	return out
}

func genC15(c *Ctx) any {
	r := c.Rand("c15")
	cs := &C15Case{}
	cs.Data.Spec = GenDataSpec(c.Rand("data"), r.Range(1, 40), false)
	subs := damageSubsets()
	if c.Index >= len(subs)+len(specialFiles) && r.Chance(1, 5) {
		// more than a thousand bitmaps: batched or pipelined loading
		cs.Data.Spec.N = []int{300, 1100, 1500, 2600}[r.Intn(4)]
		cs.Data.Spec.Unique = "u"
	}
	switch {
	case c.Index < len(subs):
		cs.Damage = subs[c.Index] // exhaustive slice: every subset of size <= 2
	case c.Index < len(subs)+len(specialFiles):
		cs.Special = specialFiles[c.Index-len(subs)]
	case r.Chance(1, 5):
		cs.Special = specialFiles[r.Intn(len(specialFiles))]
	case r.Chance(1, 6):
		// intact file: open/close histories only
	default:
		for i, n := 0, r.Range(1, 3); i < n; i++ {
			k := damageKinds[r.Intn(len(damageKinds))]
			if strings.HasPrefix(k, "V-") && r.Chance(2, 3) {
				// which bitmap (in key order): first, middle, last, the 1000th and later, the 257th from the end
				k += "@" + []string{"mid", "last", "1000", "1001", "1200", "-257", "-300", "-2", "1", "255", "256"}[r.Intn(11)]
			}
			cs.Damage = append(cs.Damage, k)
		}
	}
	opts := []string{"ondemand", "preload", "cached"}
	open := map[int]bool{}
	n := r.Range(2, 6)
	if c.Thorough() {
		n = r.Range(2, 10)
	}
	for i := 0; i < n; i++ {
		f := 0
		if r.Chance(1, 4) {
			f = 1
		}
		switch {
		case open[f] && r.Chance(2, 3):
			cs.Hist = append(cs.Hist, OOp{Kind: "close", File: f})
			if r.Chance(1, 3) {
				cs.Hist = append(cs.Hist, OOp{Kind: "close2", File: f})
			}
			open[f] = false
		case !open[f]:
			cs.Hist = append(cs.Hist, OOp{Kind: "open", File: f, Opt: opts[r.Intn(3)]})
			open[f] = true // if the open fails the model below notices
		}
	}
	if len(cs.Hist) == 0 || cs.Hist[0].Kind != "open" {
		cs.Hist = append([]OOp{{Kind: "open", File: 0, Opt: opts[r.Intn(3)]}}, cs.Hist...)
	}
	// a failing preload followed by another open is the classic lock leak: make sure it occurs
	if r.Chance(1, 3) {
		cs.Hist = append([]OOp{{Kind: "open", File: 0, Opt: "preload"}, {Kind: "open", File: 0, Opt: "ondemand"}}, cs.Hist...)
	}
	return cs
}

type mirrorSchema struct {
	Columns map[string]*struct{ Values map[string]uint64 }
}

// applyDamage edits the index file at key/value level.
func applyDamage(path string, kinds []string) (applied []string, err error) {
	db, err := bbolt.Open(path, 0o644, nil)
	if err != nil {
		return nil, err
	}
	defer db.Close()
	err = db.Update(func(tx *bbolt.Tx) error {
		for _, k := range kinds {
			b := tx.Bucket([]byte("data"))
			if k == "del-bucket" {
				if b != nil {
					if err := tx.DeleteBucket([]byte("data")); err != nil {
						return err
					}
					applied = append(applied, k)
				}
				continue
			}
			if b == nil {
				continue
			}
			k, pos, _ := strings.Cut(k, "@")
			firstV := func() []byte {
				var keys [][]byte
				c := b.Cursor()
				for key, _ := c.Seek([]byte{'V'}); key != nil && key[0] == 'V'; key, _ = c.Next() {
					if len(key) == 9 && !bytes.Equal(key, plantedKey) {
						keys = append(keys, append([]byte(nil), key...))
						if pos == "" {
							break
						}
					}
				}
				if len(keys) == 0 {
					return nil
				}
				i := 0
				switch pos {
				case "", "first":
				case "mid":
					i = len(keys) / 2
				case "last":
					i = len(keys) - 1
				default:
					n, err := strconv.Atoi(pos)
					if err != nil {
						return nil
					}
					if n < 0 {
						n += len(keys)
					}
					if n < 0 {
						n = 0
					}
					if n >= len(keys) {
						n = len(keys) - 1
					}
					i = n
				}
				return keys[i]
			}
			// a damage only counts as applied if the part it damages exists in this file
			// format (a tree that stores its header under other keys is not accused of
			// accepting a file we did not actually damage)
			var err error
			did := false
			hasS, hasI := b.Get([]byte{'S'}) != nil, b.Get([]byte{'I'}) != nil
			switch k {
			case "del-S":
				if hasS {
					err, did = b.Delete([]byte{'S'}), true
				}
			case "S-garbage":
				if hasS {
					err, did = b.Put([]byte{'S'}, []byte{0xff, 0x03, 0x00, 0x99, 0xfe, 0x17, 0x80, 0x01}), true
				}
			case "S-trunc":
				if v := b.Get([]byte{'S'}); len(v) > 1 {
					err, did = b.Put([]byte{'S'}, append([]byte(nil), v[:len(v)/2]...)), true
				}
			case "S-empty":
				if hasS {
					err, did = b.Put([]byte{'S'}, []byte{}), true
				}
			case "del-I":
				if hasI {
					err, did = b.Delete([]byte{'I'}), true
				}
			case "I-0", "I-1", "I-2", "I-3", "I-5", "I-8":
				if hasI {
					n := int(k[2] - '0')
					err, did = b.Put([]byte{'I'}, bytes.Repeat([]byte{0x00}, n)), true
				}
			case "V-garbage":
				if key := firstV(); key != nil {
					err, did = b.Put(key, []byte{0xde, 0xad, 0xbe, 0xef, 0x00, 0x01, 0x02}), true
				}
			case "V-trunc":
				if key := firstV(); key != nil {
					v := b.Get(key)
					if len(v) > 2 {
						err, did = b.Put(key, append([]byte(nil), v[:len(v)/2]...)), true
					}
				}
			case "V-empty":
				if key := firstV(); key != nil {
					err, did = b.Put(key, []byte{}), true
				}
			case "V-del":
				if key := firstV(); key != nil {
					err, did = b.Delete(key), true
				}
			case "X-unknown-V-garbage":
				err, did = b.Put(plantedKey, []byte{0xde, 0xad, 0xbe, 0xef, 0x00, 0x01, 0x02}), true
			case "S-swap":
				var ms mirrorSchema
				if sv := b.Get([]byte{'S'}); sv != nil && gob.NewDecoder(bytes.NewReader(sv)).Decode(&ms) == nil && len(ms.Columns) > 0 {
					var names []string
					for n := range ms.Columns {
						names = append(names, n)
					}
					sort.Strings(names)
					delete(ms.Columns, names[len(names)/2])
					var buf bytes.Buffer
					if gob.NewEncoder(&buf).Encode(&ms) == nil {
						err, did = b.Put([]byte{'S'}, buf.Bytes()), true
					}
				}
			case "X-unknown-key":
				err, did = b.Put([]byte("Zunknown"), []byte("x")), true
			case "X-short-V-key":
				err, did = b.Put([]byte("Vab"), []byte("x")), true
			case "X-long-V-key":
				err, did = b.Put([]byte("V0123456789ab"), []byte{}), true
			}
			if err != nil {
				return err
			}
			if did {
				if pos != "" {
					k += "@" + pos
				}
				applied = append(applied, k)
			}
		}
		return nil
	})
	return applied, err
}

// plantedKey: a well-formed bitmap key that (64-bit hash collisions aside) no schema knows.
var plantedKey = []byte{'V', 0xff, 0xfe, 0xfd, 0xfc, 0xfb, 0xfa, 0xf9, 0xf8}

// mustRejectByKind: the damages the statement says make a file "not a complete index".
func mustRejectByKind(applied []string) (bool, string) {
	for _, k := range applied {
		switch k {
		case "del-bucket", "del-S", "S-garbage", "S-trunc", "S-empty", "del-I", "I-0", "I-1", "I-2", "I-3", "I-5", "I-8":
			return true, "damage " + k
		}
	}
	return false, ""
}

// inspect reads the (possibly damaged) file and says what the statement demands of an open.
func inspect(path string) (mustErr, mustErrPreload bool, why string) {
	db, err := bbolt.Open(path, 0o644, &bbolt.Options{ReadOnly: true})
	if err != nil {
		return true, true, "not a bbolt file: " + err.Error()
	}
	defer db.Close()
	_ = db.View(func(tx *bbolt.Tx) error {
		b := tx.Bucket([]byte("data"))
		if b == nil {
			mustErr, why = true, "no data bucket"
			return nil
		}
		s := b.Get([]byte{'S'})
		var ms mirrorSchema
		if s == nil {
			mustErr, why = true, "schema missing"
		} else if err := gob.NewDecoder(bytes.NewReader(s)).Decode(&ms); err != nil {
			mustErr, why = true, "schema undecodable: "+err.Error()
		}
		if i := b.Get([]byte{'I'}); len(i) != 4 {
			mustErr = true
			why += fmt.Sprintf(" row counter has %d bytes", len(i))
		}
		c := b.Cursor()
		for key, val := c.Seek([]byte{'V'}); key != nil && key[0] == 'V'; key, val = c.Next() {
			if len(key) != 9 || bytes.Equal(key, plantedKey) {
				continue // a bitmap no column refers to: whether preloading looks at it is the implementation's business
			}
			if _, err := roaring.New().FromBuffer(append([]byte(nil), val...)); err != nil {
				mustErrPreload = true
				why += " undecodable bitmap"
				break
			}
		}
		return nil
	})
	return mustErr, mustErr || mustErrPreload, why
}

func runC15(c *Ctx, body json.RawMessage) *Verdict {
	v := OK()
	var cs C15Case
	if err := json.Unmarshal(body, &cs); err != nil {
		return v.Harness("decode: %v", err)
	}
	v.CaseKey = hashJSON(&cs)
	rows := cs.Data.Expand()
	ref := NewRefIndex(rows)
	paths := []string{c.Path("damaged.updog"), c.Path("intact.updog")}
	for _, p := range paths {
		if _, err := BuildIndex("mem-file", p, rows); err != nil {
			return v.Harness("build: %v", err)
		}
	}
	d := simrt.NewDisk()
	isFile := true
	var applied []string
	switch cs.Special {
	case "":
		var err error
		if applied, err = applyDamage(paths[0], cs.Damage); err != nil {
			return v.Harness("damage: %v", err)
		}
	case "empty-bbolt":
		os.Remove(paths[0])
		db, err := bbolt.Open(paths[0], 0o644, nil)
		if err != nil {
			return v.Harness("%v", err)
		}
		db.Close()
	case "zero-byte":
		_ = os.WriteFile(paths[0], nil, 0o644)
	case "garbage":
		g := make([]byte, 20000)
		for i := range g {
			g[i] = byte(simrt.Hash3(c.Seed, uint64(i), 3))
		}
		_ = os.WriteFile(paths[0], g, 0o644)
	case "directory":
		os.Remove(paths[0])
		_ = os.Mkdir(paths[0], 0o755)
		isFile = false
	case "nonexistent":
		os.Remove(paths[0])
		isFile = false
	case "open-error":
		d.FailOpen[paths[0]] = "eacces"
	default:
		return Invalid("unknown special file")
	}
	mustErr, mustErrPre, why := false, false, ""
	switch cs.Special {
	case "":
		// what must be rejected follows from the damages that were actually applied; only
		// "an undecodable bitmap" is judged from the content (by roaring itself)
		var w2 string
		_, mustErrPre, w2 = inspect(paths[0])
		mustErr, why = mustRejectByKind(applied)
		mustErrPre = mustErr || (mustErrPre && strings.Contains(w2, "undecodable bitmap"))
		for _, k := range applied {
			if k == "S-swap" && !mustErr {
				mustErrPre = false // the damaged bitmap may belong to the column the schema no longer names
			}
		}
		why += " " + w2
	case "empty-bbolt":
		mustErr, mustErrPre, why = true, true, "bbolt file without data bucket"
	default:
		mustErr, mustErrPre, why = true, true, cs.Special
		if cs.Special == "garbage" || cs.Special == "zero-byte" {
			// the statement is silent about files that are not bbolt files: no panic, no hang
			mustErr, mustErrPre = false, false
		}
	}
	for _, k := range applied {
		base, pos, _ := strings.Cut(k, "@")
		v.Count("fault_damage_"+base, 1)
		if n, err := strconv.Atoi(pos); err == nil && (n >= 1000 || n <= -257) && len(rows) > 1000 {
			v.Count("probe_damage_deep_in_a_large_index", 1)
		}
	}
	if cs.Special != "" {
		v.Count("fault_special_"+cs.Special, 1)
	}
	var bad *Verdict
	progress := ""
	var res *simrt.Result
	simrt.AttachDisk(d)
	c.Bubble(func() {
		task := func() {
			handles := map[int]*updog.Index{}
			for hi, op := range cs.Hist {
				progress = fmt.Sprintf("history step %d (%s %s file %d)", hi, op.Kind, op.Opt, op.File)
				if op.File < 0 || op.File > 1 {
					bad = Invalid("bad file")
					return
				}
				path := paths[op.File]
				probeLock := func(when string) bool {
					if op.File == 0 && !isFile {
						return true
					}
					free, err := flockFree(path)
					if err != nil {
						bad = v.Harness("flock probe: %v", err)
						return false
					}
					if !free {
						bad = v.Violate("file-not-released", "%s: %s the file lock is still held", progress, when)
						return false
					}
					v.Count("lock_free_probes", 1)
					return true
				}
				switch op.Kind {
				case "open":
					if handles[op.File] != nil {
						// second open while open: allowed by the statement only after a failure or Close
						continue
					}
					var opts []updog.IndexOption
					switch op.Opt {
					case "preload":
						opts = append(opts, updog.WithPreloadedData())
					case "cached":
						opts = append(opts, updog.WithCache(updog.NewLRUCache(1<<16)))
					}
					var idx *updog.Index
					var err error
					if p := guard(func() { idx, err = updog.OpenIndex(path, opts...) }); p != "" {
						bad = v.Violate("open-panic", "%s: OpenIndex panicked: %s (file state: %s)", progress, p, why)
						return
					}
					v.Count("opens", 1)
					need := op.File == 0 && (mustErr || (op.Opt == "preload" && mustErrPre))
					if err == nil && idx == nil {
						bad = v.Violate("nil-index", "%s: OpenIndex returned neither index nor error", progress)
						return
					}
					if err != nil {
						v.Count("opens_failed", 1)
						if idx != nil {
							bad = v.Violate("index-with-error", "%s: OpenIndex returned an index together with error %v", progress, err)
							return
						}
						if op.File == 1 || (cs.Special == "" && len(cs.Damage) == 0) {
							bad = v.Violate("intact-index-rejected", "%s: opening an intact index failed: %v", progress, err)
							return
						}
						if cs.Special == "nonexistent" {
							if _, e := os.Lstat(path); e == nil {
								bad = v.Violate("created-missing-file", "%s: opening a non-existent path created it", progress)
								return
							}
						}
						if !probeLock("after the failed open") {
							return
						}
						continue
					}
					if need {
						idx.Close()
						bad = v.Violate("damaged-index-accepted", "%s: OpenIndex succeeded on a file that is not a complete index (%s)", progress, why)
						return
					}
					handles[op.File] = idx
					if op.File == 1 || (cs.Special == "" && len(cs.Damage) == 0) {
						if sig, det := probeIndex(idx, ref, "", 20, c.Seed); sig != "" {
							bad = v.Violate(sig, "%s: %s", progress, det)
							return
						}
					} else {
						// a damaged file that opened: queries must not panic
						for _, col := range ref.Schema() {
							q := &Query{Expr: Eq(col[0], col[1])}
							if p := guard(func() { _, _ = idx.Execute(q.ToUpdog()) }); p != "" {
								bad = v.Violate("panic", "%s: Execute on the opened file panicked: %s", progress, p)
								return
							}
						}
						if p := guard(func() { idx.GetSchema() }); p != "" {
							bad = v.Violate("panic", "%s: GetSchema panicked: %s", progress, p)
							return
						}
					}
				case "close", "close2":
					idx := handles[op.File]
					if idx == nil {
						continue
					}
					var err error
					if p := guard(func() { err = idx.Close() }); p != "" {
						bad = v.Violate("close-panic", "%s: Close panicked: %s", progress, p)
						return
					}
					if op.Kind == "close" && err != nil {
						bad = v.Violate("close-error", "%s: Close failed: %v", progress, err)
						return
					}
					v.Count("closes", 1)
					if !probeLock("after Close") {
						return
					}
					if hi+1 >= len(cs.Hist) || cs.Hist[hi+1].Kind != "close2" || cs.Hist[hi+1].File != op.File {
						delete(handles, op.File)
					}
				}
			}
			for _, idx := range handles {
				_ = guard(func() { idx.Close() })
			}
		}
		res = simrt.Run(simrt.Config{Strategy: "seq"}, []func(){task})
	})
	simrt.AttachDisk(nil)
	reopens := 0
	for _, op := range cs.Hist {
		if op.Kind == "open" {
			reopens++
		}
	}
	v.NonTrivial = (len(cs.Damage) > 0 || cs.Special != "") && reopens >= 1
	v.StateKey = simrt.Hash3(simrt.HashStr(fmt.Sprint(cs.Damage, cs.Special)), uint64(len(cs.Hist)), 0)
	if res != nil && (res.Hang || res.Deadlock) {
		v.Fatal = true
		return v.Violate("open-hang", "%s never returned (file state: %s)\n%s", progress, why, hangStacks(res.Stacks))
	}
	if res != nil {
		for _, p := range res.Panics {
			return v.Violate("panic", "%s: %s\n%s", progress, p.Value, trimStacks(p.Stack))
		}
	}
	if bad != nil {
		return bad
	}
	return v
}
