package verifsim

// Reference models (oracles). Written from the property statements; independent of
// roaring, bbolt and xxhash.

import (
	"encoding/hex"
	"encoding/json"
	"errors"
	"fmt"
	"sort"
	"strings"
	"unicode/utf8"

	"github.com/akrennmair/updog"
	pb "github.com/akrennmair/updog/proto/updog/v1"
)

// S is a string that survives JSON (invalid UTF-8 is hex-escaped).
type S string

const hexPrefix = "\x00hex:"

func (s S) MarshalJSON() ([]byte, error) {
	str := string(s)
	if utf8.ValidString(str) && !strings.HasPrefix(str, hexPrefix) {
		return json.Marshal(str)
	}
	return json.Marshal(hexPrefix + hex.EncodeToString([]byte(str)))
}

func (s *S) UnmarshalJSON(b []byte) error {
	var str string
	if err := json.Unmarshal(b, &str); err != nil {
		return err
	}
	if strings.HasPrefix(str, hexPrefix) {
		raw, err := hex.DecodeString(str[len(hexPrefix):])
		if err != nil {
			return err
		}
		*s = S(raw)
		return nil
	}
	*s = S(str)
	return nil
}

// Row is a list of (column, value) pairs with distinct columns.
type Row [][2]S

func (r Row) Map() map[string]string {
	m := make(map[string]string, len(r))
	for _, kv := range r {
		m[string(kv[0])] = string(kv[1])
	}
	return m
}

// Expr is the harness's own expression tree.
type Expr struct {
	Op   string  `json:"op"` // eq | not | and | or
	Col  S       `json:"col,omitempty"`
	Val  S       `json:"val,omitempty"`
	Kids []*Expr `json:"kids,omitempty"`
}

func Eq(c, v string) *Expr    { return &Expr{Op: "eq", Col: S(c), Val: S(v)} }
func Not(e *Expr) *Expr       { return &Expr{Op: "not", Kids: []*Expr{e}} }
func And(es ...*Expr) *Expr   { return &Expr{Op: "and", Kids: es} }
func Or(es ...*Expr) *Expr    { return &Expr{Op: "or", Kids: es} }
func (e *Expr) Clone() *Expr {
	if e == nil {
		return nil
	}
	c := &Expr{Op: e.Op, Col: e.Col, Val: e.Val}
	for _, k := range e.Kids {
		c.Kids = append(c.Kids, k.Clone())
	}
	return c
}

func (e *Expr) String() string {
	switch e.Op {
	case "eq":
		return fmt.Sprintf("%s=%q", string(e.Col), string(e.Val))
	case "not":
		if len(e.Kids) != 1 {
			return "^<malformed>"
		}
		return "^" + e.Kids[0].String()
	default:
		var parts []string
		for _, k := range e.Kids {
			parts = append(parts, k.String())
		}
		sep := " & "
		if e.Op == "or" {
			sep = " | "
		}
		return "(" + strings.Join(parts, sep) + ")"
	}
}

func (e *Expr) Size() int {
	n := 1
	for _, k := range e.Kids {
		n += k.Size()
	}
	return n
}

func (e *Expr) HasNot() bool {
	if e.Op == "not" {
		return true
	}
	for _, k := range e.Kids {
		if k.HasNot() {
			return true
		}
	}
	return false
}

func (e *Expr) Operators() int {
	n := 0
	if e.Op != "eq" {
		n = 1
	}
	for _, k := range e.Kids {
		n += k.Operators()
	}
	return n
}

// Valid: every and/or has >= 1 operand, not exactly one.
func (e *Expr) Valid() bool {
	switch e.Op {
	case "eq":
		return len(e.Kids) == 0
	case "not":
		return len(e.Kids) == 1 && e.Kids[0].Valid()
	case "and", "or":
		if len(e.Kids) == 0 {
			return false
		}
		for _, k := range e.Kids {
			if !k.Valid() {
				return false
			}
		}
		return true
	}
	return false
}

// ToUpdog converts to the library's expression type.
func (e *Expr) ToUpdog() updog.Expression {
	switch e.Op {
	case "eq":
		return &updog.ExprEqual{Column: string(e.Col), Value: string(e.Val)}
	case "not":
		return &updog.ExprNot{Expr: e.Kids[0].ToUpdog()}
	case "and":
		x := &updog.ExprAnd{}
		for _, k := range e.Kids {
			x.Exprs = append(x.Exprs, k.ToUpdog())
		}
		return x
	default:
		x := &updog.ExprOr{}
		for _, k := range e.Kids {
			x.Exprs = append(x.Exprs, k.ToUpdog())
		}
		return x
	}
}

// ToProto converts to the wire type.
func (e *Expr) ToProto() *pb.Query_Expression {
	switch e.Op {
	case "eq":
		return &pb.Query_Expression{Value: &pb.Query_Expression_Eq{Eq: &pb.Query_Expression_Equal{Column: string(e.Col), Value: string(e.Val)}}}
	case "not":
		return &pb.Query_Expression{Value: &pb.Query_Expression_Not_{Not: &pb.Query_Expression_Not{Expr: e.Kids[0].ToProto()}}}
	case "and":
		x := &pb.Query_Expression_And{}
		for _, k := range e.Kids {
			x.Exprs = append(x.Exprs, k.ToProto())
		}
		return &pb.Query_Expression{Value: &pb.Query_Expression_And_{And: x}}
	default:
		x := &pb.Query_Expression_Or{}
		for _, k := range e.Kids {
			x.Exprs = append(x.Exprs, k.ToProto())
		}
		return &pb.Query_Expression{Value: &pb.Query_Expression_Or_{Or: x}}
	}
}

// ---------------------------------------------------------------- RefIndex

type bits []uint64

func newBits(n int) bits { return make(bits, (n+63)/64) }
func (b bits) set(i int) { b[i>>6] |= 1 << (uint(i) & 63) }
func (b bits) get(i int) bool { return b[i>>6]&(1<<(uint(i)&63)) != 0 }
func (b bits) count() uint64 {
	var c uint64
	for _, w := range b {
		for ; w != 0; w &= w - 1 {
			c++
		}
	}
	return c
}

// RefIndex is the reference model of an index: the rows, in id order.
type RefIndex struct {
	Rows []map[string]string
	cols map[string]map[string]bits // column -> value -> rows (built lazily)
}

func NewRefIndex(rows []Row) *RefIndex {
	ri := &RefIndex{}
	for _, r := range rows {
		ri.Rows = append(ri.Rows, r.Map())
	}
	return ri
}

func (ri *RefIndex) N() int { return len(ri.Rows) }

func (ri *RefIndex) build() {
	if ri.cols != nil {
		return
	}
	ri.cols = map[string]map[string]bits{}
	for i, r := range ri.Rows {
		for c, v := range r {
			m := ri.cols[c]
			if m == nil {
				m = map[string]bits{}
				ri.cols[c] = m
			}
			b := m[v]
			if b == nil {
				b = newBits(len(ri.Rows))
				m[v] = b
			}
			b.set(i)
		}
	}
}

var ErrUnknownColumn = errors.New("unknown column")

// Eval returns the set of rows satisfying e, or an error if e tests an unknown column.
func (ri *RefIndex) Eval(e *Expr) (bits, error) {
	ri.build()
	n := len(ri.Rows)
	switch e.Op {
	case "eq":
		m, ok := ri.cols[string(e.Col)]
		if !ok {
			return nil, ErrUnknownColumn
		}
		out := newBits(n)
		if b, ok := m[string(e.Val)]; ok {
			copy(out, b)
		}
		return out, nil
	case "not":
		in, err := ri.Eval(e.Kids[0])
		if err != nil {
			return nil, err
		}
		out := newBits(n)
		for i := 0; i < n; i++ {
			if !in.get(i) {
				out.set(i)
			}
		}
		return out, nil
	case "and", "or":
		var acc bits
		for _, k := range e.Kids {
			b, err := ri.Eval(k)
			if err != nil {
				return nil, err
			}
			if acc == nil {
				acc = append(bits(nil), b...)
				continue
			}
			for i := range acc {
				if e.Op == "and" {
					acc[i] &= b[i]
				} else {
					acc[i] |= b[i]
				}
			}
		}
		if acc == nil {
			return nil, errors.New("operator without operands")
		}
		return acc, nil
	}
	return nil, fmt.Errorf("bad op %q", e.Op)
}

// Group is one reference result group.
type Group struct {
	Cols  []string
	Vals  []string
	Count uint64
}

// RefResult is what the property says Execute must return.
type RefResult struct {
	Err    bool
	Count  uint64
	Groups []Group
}

// Query is the harness's query: expression + group-by list.
type Query struct {
	Expr    *Expr `json:"expr"`
	GroupBy []S   `json:"group_by,omitempty"`
}

// Valid: inside the properties' quantifier (every AND/OR has at least one operand).
func (q *Query) Valid() bool { return q != nil && q.Expr != nil && q.Expr.Valid() }

func (q *Query) String() string {
	s := q.Expr.String()
	if len(q.GroupBy) > 0 {
		var g []string
		for _, c := range q.GroupBy {
			g = append(g, string(c))
		}
		s += " ; " + strings.Join(g, ",")
	}
	return s
}

func (q *Query) ToUpdog() *updog.Query {
	uq := &updog.Query{Expr: q.Expr.ToUpdog()}
	for _, g := range q.GroupBy {
		uq.GroupBy = append(uq.GroupBy, string(g))
	}
	return uq
}

func (q *Query) ToProto(id int32) *pb.Query {
	pq := &pb.Query{Id: id, Expr: q.Expr.ToProto()}
	for _, g := range q.GroupBy {
		pq.GroupBy = append(pq.GroupBy, string(g))
	}
	return pq
}

// Execute is the reference semantics of Index.Execute.
func (ri *RefIndex) Execute(q *Query) *RefResult {
	ri.build()
	for _, g := range q.GroupBy {
		if _, ok := ri.cols[string(g)]; !ok {
			return &RefResult{Err: true}
		}
	}
	match, err := ri.Eval(q.Expr)
	if err != nil {
		return &RefResult{Err: true}
	}
	res := &RefResult{Count: match.count()}
	if len(q.GroupBy) == 0 {
		return res
	}
	cols := make([]string, len(q.GroupBy))
	for i, g := range q.GroupBy {
		cols[i] = string(g)
	}
	counts := map[string]*Group{}
	for i, r := range ri.Rows {
		if !match.get(i) {
			continue
		}
		vals := make([]string, len(cols))
		ok := true
		for j, c := range cols {
			v, has := r[c]
			if !has {
				ok = false
				break
			}
			vals[j] = v
		}
		if !ok {
			continue
		}
		key := tupleKey(vals)
		g := counts[key]
		if g == nil {
			g = &Group{Cols: cols, Vals: vals}
			counts[key] = g
		}
		g.Count++
	}
	for _, g := range counts {
		res.Groups = append(res.Groups, *g)
	}
	sort.Slice(res.Groups, func(a, b int) bool {
		x, y := res.Groups[a].Vals, res.Groups[b].Vals
		for i := range x {
			if x[i] != y[i] {
				return x[i] < y[i]
			}
		}
		return false
	})
	return res
}

func tupleKey(vals []string) string {
	var sb strings.Builder
	for _, v := range vals {
		fmt.Fprintf(&sb, "%d:", len(v))
		sb.WriteString(v)
	}
	return sb.String()
}

// RefSchema: sorted columns, each with sorted distinct values.
func (ri *RefIndex) Schema() [][]string {
	ri.build()
	var cols []string
	for c := range ri.cols {
		cols = append(cols, c)
	}
	sort.Strings(cols)
	var out [][]string
	for _, c := range cols {
		row := []string{c}
		var vals []string
		for v := range ri.cols[c] {
			vals = append(vals, v)
		}
		sort.Strings(vals)
		out = append(out, append(row, vals...))
	}
	return out
}

// CompareResult checks a library result against the reference; "" means equal.
func CompareResult(ref *RefResult, res *updog.Result, err error) string {
	if ref.Err {
		if err == nil {
			return "expected an error, got a result"
		}
		if res != nil {
			return "error returned together with a result"
		}
		return ""
	}
	if err != nil {
		return "unexpected error: " + err.Error()
	}
	if res == nil {
		return "nil result without error"
	}
	if res.Count != ref.Count {
		return fmt.Sprintf("count %d, want %d", res.Count, ref.Count)
	}
	if len(res.Groups) != len(ref.Groups) {
		return fmt.Sprintf("%d groups, want %d", len(res.Groups), len(ref.Groups))
	}
	for i, g := range res.Groups {
		w := ref.Groups[i]
		if g.Count != w.Count {
			return fmt.Sprintf("group %d: count %d, want %d", i, g.Count, w.Count)
		}
		if len(g.Fields) != len(w.Cols) {
			return fmt.Sprintf("group %d: %d fields, want %d", i, len(g.Fields), len(w.Cols))
		}
		for j, f := range g.Fields {
			if f.Column != w.Cols[j] || f.Value != w.Vals[j] {
				return fmt.Sprintf("group %d field %d: %s=%q, want %s=%q", i, j, f.Column, f.Value, w.Cols[j], w.Vals[j])
			}
		}
	}
	return ""
}

// CompareSchema checks GetSchema against the reference; "" means equal.
func CompareSchema(ref [][]string, sch *updog.Schema) string {
	if sch == nil {
		return "nil schema"
	}
	if len(sch.Columns) != len(ref) {
		return fmt.Sprintf("%d columns, want %d", len(sch.Columns), len(ref))
	}
	for i, c := range sch.Columns {
		if c.Name != ref[i][0] {
			return fmt.Sprintf("column %d is %q, want %q", i, c.Name, ref[i][0])
		}
		if len(c.Values) != len(ref[i])-1 {
			return fmt.Sprintf("column %q: %d values, want %d", c.Name, len(c.Values), len(ref[i])-1)
		}
		for j, v := range c.Values {
			if v.Value != ref[i][j+1] {
				return fmt.Sprintf("column %q value %d is %q, want %q", c.Name, j, v.Value, ref[i][j+1])
			}
		}
	}
	return ""
}
