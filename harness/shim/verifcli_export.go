package verifcli

// Exported entry points into the CLI package for the in-process worlds. This file is the
// only place where the harness names unexported identifiers of cmd/updog.

import (
	"github.com/akrennmair/updog"
	proto "github.com/akrennmair/updog/proto/updog/v1"
)

// NewServer returns the gRPC service value of `updog server` over idx, built by the expression the program itself
// passes to RegisterQueryServiceServer (lifted by the instrumenter, rewrite R4b); nil if that was not possible.
func NewServer(idx *updog.Index) proto.QueryServiceServer { return VerifNewServer(idx) }

// Create runs `updog create [-b] -o out in` in-process.
func Create(in, out string, big, verbose bool) error {
	return createCmd(&globalConfig{verbose: verbose}, &createConfig{outputFile: out, inputFile: in, big: big})
}

// NormalizeHeader exposes the header normalisation of `updog create`.
func NormalizeHeader(h []string) []string { return normalizeHeader(h) }
