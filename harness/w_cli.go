package verifsim

// C19 — `updog create` ingests a CSV faithfully in both modes (real binary as a child).
// C16 — existing files are never clobbered; reading never modifies the index.

import (
	"bytes"
	"encoding/json"
	"fmt"
	"go.etcd.io/bbolt"
	"os"
	"os/exec"
	"strings"
	"time"
	"unicode"

	"github.com/akrennmair/updog"
	"verif/simrt"
)

func init() {
	register("C19", &World{Gen: genC19, Run: runC19})
	register("C16", &World{Gen: genC16, Run: runC16})
}

type C19Case struct {
	Header  []S    `json:"header"`
	Records [][]S  `json:"records"`
	Malform string `json:"malform,omitempty"`  // "" | ragged-short | ragged-long | bare-quote
	MalAt   int    `json:"mal_at,omitempty"`   // record index the malformation is applied to
	Present string `json:"present,omitempty"`  // pre-existing output: "" | empty | index | garbage
	LF      bool   `json:"lf,omitempty"`       // records end in LF instead of CR LF
	NoFinal bool   `json:"no_final,omitempty"` // last record without line terminator
	// PriorKill > 0: before the run under test, an earlier `updog create` to the SAME output path
	// with OTHER records is killed by SIGKILL at that per-mille position of its write sequence
	// and the partial output removed — whatever else that run left behind must not matter
	PriorKill    int `json:"prior_kill,omitempty"`
	PriorRecords int `json:"prior_records,omitempty"`
}

// includes the two code points outside ASCII whose lower case IS ASCII (U+212A KELVIN SIGN -> k, U+0130 -> i)
var headerPool = []string{"Name", "city", "COL 2", "x-y", "Ünï", "a1", "é", "k_k", "Zip Code", "q", "日本", "Value$", "tag", "\u212a", "\u0130d", "\u212aelvin", "ſ", "ǅ",
	"a;b", "x\ty", "p|q", "m:n", "k#1", "semi;"}
var fieldPool = []string{"semi;colon", "pipe|d", "#hash", "", "a", "b", "x y", "comma,inside", "quote\"inside", "\"", "line\nbreak", "ü日本", " lead", "trail ", "tab\there", "'single'", "1", "0", "long-" + strings.Repeat("z", 40), "\xff\xfebin", "cr\rinside", "a,b\"c\nd"}

// normHeader is the statement's normalisation: lower-cased, every character outside a-z -> '_'.
func normHeader(h string) string {
	var sb strings.Builder
	for _, r := range h {
		r = unicode.ToLower(r)
		if r >= 'a' && r <= 'z' {
			sb.WriteRune(r)
		} else {
			sb.WriteByte('_')
		}
	}
	return sb.String()
}

func genC19(c *Ctx) any {
	r := c.Rand("c19")
	cs := &C19Case{LF: r.Chance(1, 2), NoFinal: r.Chance(1, 6)}
	seen := map[string]bool{}
	for i, n := 0, r.Range(1, 5); i < n; {
		h := headerPool[r.Intn(len(headerPool))]
		if r.Chance(1, 4) {
			h = fmt.Sprintf("%s%c", h, 'a'+rune(r.Intn(26)))
		}
		if nh := normHeader(h); !seen[nh] {
			seen[nh] = true
			cs.Header = append(cs.Header, S(h))
			i++
		}
	}
	nrec := r.Range(0, 40)
	switch r.Intn(12) {
	case 0:
		nrec = 0
	case 1:
		nrec = []int{999, 1000, 1001, 1002}[r.Intn(4)]
	case 2:
		if c.Thorough() {
			nrec = r.Range(2000, 3000)
		}
	}
	crlf := r.Chance(1, 30) // CR LF inside a field: known finding, kept rare
	for i := 0; i < nrec; i++ {
		rec := make([]S, len(cs.Header))
		for j := range rec {
			switch {
			case crlf && r.Chance(1, 10):
				rec[j] = "cr\r\nlf"
			case nrec > 100:
				rec[j] = S(fmt.Sprintf("v%d", r.Intn(7)))
				if j == 0 {
					rec[j] = S(fmt.Sprintf("r%d", i))
				}
			default:
				rec[j] = S(fieldPool[r.Intn(len(fieldPool))])
			}
		}
		cs.Records = append(cs.Records, rec)
	}
	if r.Chance(1, 5) && nrec > 0 {
		cs.Malform = []string{"ragged-short", "ragged-long", "bare-quote"}[r.Intn(3)]
		cs.MalAt = []int{0, nrec / 2, nrec - 1}[r.Intn(3)]
	}
	if r.Chance(1, 4) {
		cs.Present = presentKinds[r.Intn(len(presentKinds))]
	} else if cs.Malform == "" && r.Chance(1, 6) {
		cs.PriorKill = r.Range(300, 990)
		cs.PriorRecords = r.Range(1100, 2600)
	}
	return cs
}

func (cs *C19Case) csvBytes() []byte {
	var b bytes.Buffer
	eol := "\r\n"
	if cs.LF {
		eol = "\n"
	}
	var hdr []string
	for _, h := range cs.Header {
		hdr = append(hdr, csvField(string(h)))
	}
	b.WriteString(strings.Join(hdr, ",") + eol)
	for i, rec := range cs.Records {
		var f []string
		for _, x := range rec {
			f = append(f, csvField(string(x)))
		}
		if cs.Malform != "" && i == cs.MalAt {
			switch cs.Malform {
			case "ragged-short":
				if len(f) > 1 {
					f = f[:len(f)-1]
				} else {
					f = append(f, "extra")
				}
			case "ragged-long":
				f = append(f, "extra")
			case "bare-quote":
				f[0] = `ab"cd`
			}
		}
		b.WriteString(strings.Join(f, ","))
		if i < len(cs.Records)-1 || !cs.NoFinal {
			b.WriteString(eol)
		}
	}
	return b.Bytes()
}

// runBin runs the real updog binary. Exit status -2 means the command never exits: every
// thread of the child has been asleep with no CPU time consumed for 10 s of wall time (a
// deadlocked process, not a slow one). A child that is still making progress is given up to
// 5 minutes; running out of that is harness trouble (-3), never a violation.
func runBin(args ...string) (int, string) {
	return runCmd(exec.Command(os.Getenv("VERIF_UPDOG_BIN"), args...))
}

// runCmd is runBin for a prepared command (own environment, a shell wrapper that execs the binary).
func runCmd(cmd *exec.Cmd) (int, string) {
	var out bytes.Buffer
	cmd.Stdout, cmd.Stderr = &out, &out
	if err := cmd.Start(); err != nil {
		return -1, err.Error()
	}
	done := make(chan error, 1)
	go func() { done <- cmd.Wait() }()
	idle := 0
	var lastCPU int64 = -1
	tick := time.NewTicker(250 * time.Millisecond)
	defer tick.Stop()
	deadline := time.After(5 * time.Minute)
	for {
		select {
		case err := <-done:
			if err == nil {
				return 0, out.String()
			}
			if ee, ok := err.(*exec.ExitError); ok {
				return ee.ExitCode(), out.String()
			}
			return -1, err.Error()
		case <-tick.C:
			cpu, allAsleep := childActivity(cmd.Process.Pid)
			if allAsleep && cpu == lastCPU {
				idle++
			} else {
				idle = 0
			}
			lastCPU = cpu
			if idle >= 40 {
				_ = cmd.Process.Kill()
				<-done
				return -2, out.String()
			}
		case <-deadline:
			_ = cmd.Process.Kill()
			<-done
			return -3, out.String()
		}
	}
}

// childActivity returns the CPU ticks consumed by all threads of pid and whether every
// thread is sleeping (state S).
func childActivity(pid int) (int64, bool) {
	tasks, err := os.ReadDir(fmt.Sprintf("/proc/%d/task", pid))
	if err != nil {
		return -1, false
	}
	var cpu int64
	asleep := true
	for _, t := range tasks {
		b, err := os.ReadFile(fmt.Sprintf("/proc/%d/task/%s/stat", pid, t.Name()))
		if err != nil {
			continue
		}
		s := string(b)
		i := strings.LastIndexByte(s, ')')
		if i < 0 {
			continue
		}
		f := strings.Fields(s[i+1:])
		if len(f) < 13 {
			continue
		}
		if f[0] != "S" {
			asleep = false
		}
		var u, k int64
		fmt.Sscan(f[11], &u)
		fmt.Sscan(f[12], &k)
		cpu += u + k
	}
	return cpu, asleep
}

var presentKinds = []string{"empty", "index", "garbage", "symlink-dangling", "symlink-file", "directory", "bolt-empty", "bolt-data-noschema", "bolt-other", "hardlink"}

func presetFile(c *Ctx, path, kind string) error {
	switch kind {
	case "empty":
		return os.WriteFile(path, nil, 0o644)
	case "garbage":
		return os.WriteFile(path, []byte("this is not an index\x00\x01\x02"), 0o644)
	case "readonly":
		_, err := BuildIndex("mem-file", path, []Row{{{"p", "q"}}})
		if err != nil {
			return err
		}
		return os.Chmod(path, 0o444)
	case "index":
		_, err := BuildIndex("mem-file", path, []Row{{{"p", "q"}}, {{"p", "r"}}})
		return err
	case "symlink-dangling":
		return os.Symlink(path+".target-that-does-not-exist", path)
	case "symlink-file":
		if err := os.WriteFile(path+".linked", []byte("linked file\n"), 0o644); err != nil {
			return err
		}
		return os.Symlink(path+".linked", path)
	case "directory":
		return os.Mkdir(path, 0o755)
	case "bolt-empty", "bolt-data-noschema", "bolt-other":
		// somebody else's bbolt database, or the remains of an interrupted index build
		db, err := bbolt.Open(path, 0o644, nil)
		if err != nil {
			return err
		}
		err = db.Update(func(tx *bbolt.Tx) error {
			switch kind {
			case "bolt-data-noschema":
				b, err := tx.CreateBucket([]byte("data"))
				if err != nil {
					return err
				}
				return b.Put([]byte("V12345678"), []byte("some value"))
			case "bolt-other":
				b, err := tx.CreateBucket([]byte("users"))
				if err != nil {
					return err
				}
				return b.Put([]byte("alice"), []byte("precious"))
			}
			return nil
		})
		if cerr := db.Close(); err == nil {
			err = cerr
		}
		return err
	case "hardlink":
		if err := os.WriteFile(path+".linked", []byte("a file with two names\n"), 0o644); err != nil {
			return err
		}
		return os.Link(path+".linked", path)
	}
	return nil
}

// presetSide: what else must be unchanged besides the path itself (the target of a link).
func presetSide(path, kind string) string {
	switch kind {
	case "symlink-dangling":
		return statSig(path + ".target-that-does-not-exist")
	case "symlink-file", "hardlink":
		return statSig(path + ".linked")
	}
	return ""
}

func statSig(path string) string {
	st, err := os.Lstat(path)
	if err != nil {
		return "absent"
	}
	if st.Mode()&os.ModeSymlink != 0 {
		l, _ := os.Readlink(path)
		return fmt.Sprintf("symlink->%s mode=%v", l, st.Mode())
	}
	if st.IsDir() {
		ents, _ := os.ReadDir(path)
		return fmt.Sprintf("dir entries=%d mode=%v", len(ents), st.Mode())
	}
	return fmt.Sprintf("%s size=%d mode=%v", fileSHA(path), st.Size(), st.Mode())
}

func runC19(c *Ctx, body json.RawMessage) *Verdict {
	v := OK()
	var cs C19Case
	if err := json.Unmarshal(body, &cs); err != nil {
		return v.Harness("decode: %v", err)
	}
	v.CaseKey = hashJSON(&cs)
	if len(cs.Header) == 0 {
		return Invalid("no header")
	}
	norm := map[string]bool{}
	var cols []string
	for _, h := range cs.Header {
		nh := normHeader(string(h))
		if norm[nh] || strings.ContainsAny(string(h), "\r\n") {
			return Invalid("headers must stay distinct after normalisation")
		}
		norm[nh] = true
		cols = append(cols, nh)
	}
	hasCRLF := false
	var rows []Row
	for _, rec := range cs.Records {
		if len(rec) != len(cs.Header) {
			return Invalid("record width")
		}
		var row Row
		for j, x := range rec {
			if strings.Contains(string(x), "\r\n") {
				hasCRLF = true
			}
			row = append(row, [2]S{S(cols[j]), x})
		}
		rows = append(rows, row)
	}
	if cs.NoFinal && len(cs.Records) > 0 {
		last := cs.Records[len(cs.Records)-1]
		if len(last) == 1 && last[0] == "" {
			// a final record `""` without terminator is fine; nothing to adjust
			_ = last
		}
	}
	ref := NewRefIndex(rows)
	in := c.Path("in.csv")
	if err := os.WriteFile(in, cs.csvBytes(), 0o644); err != nil {
		return v.Harness("%v", err)
	}
	v.StateKey = simrt.Hash3(simrt.HashStr(cs.Malform+cs.Present), uint64(bucket(len(cs.Records))), uint64(len(cs.Header)))
	v.NonTrivial = len(cs.Records) >= 2
	type outc struct {
		idx *updog.Index
	}
	var opened []*updog.Index
	defer func() {
		for _, i := range opened {
			i.Close()
		}
	}()
	for _, mode := range []string{"normal", "big"} {
		out := c.Path("out-" + mode + ".updog")
		if err := presetFile(c, out, cs.Present); err != nil {
			return v.Harness("preset: %v", err)
		}
		if cs.PriorKill > 0 && cs.Present == "" {
			prior := c.Path("prior-" + mode + ".csv")
			pc := &C19Case{Header: cs.Header, LF: true}
			for i := 0; i < cs.PriorRecords; i++ {
				rec := make([]S, len(cs.Header))
				for j := range rec {
					// the same (column, value) pairs as the real input, at other row ids: anything
					// that survives the killed run shows up as inflated counts
					if len(cs.Records) > 0 && !strings.ContainsAny(string(cs.Records[(i*7+3)%len(cs.Records)][j]), "\r") {
						rec[j] = cs.Records[(i*7+3)%len(cs.Records)][j]
					} else {
						rec[j] = S(fmt.Sprintf("prior%d_%d", j, i%997))
					}
				}
				pc.Records = append(pc.Records, rec)
			}
			_ = os.WriteFile(prior, pc.csvBytes(), 0o644)
			margs := []string{"create", "-o", out, prior}
			if mode == "big" {
				margs = []string{"create", "-b", "-o", out, prior}
			}
			nw, err := killedRun(c, 0, margs...)
			os.Remove(out)
			if err == nil && nw > 0 {
				_, _ = killedRun(c, 1+cs.PriorKill*nw/1000, margs...)
				os.Remove(out) // the user removes the rejected leftover and tries again with the real input
				v.Count("fault_prior_run_killed", 1)
			}
		}
		before := statSig(out) + presetSide(out, cs.Present)
		args := []string{"create", "-o", out, in}
		if mode == "big" {
			args = []string{"create", "-b", "-o", out, in}
		}
		code, outText := runBin(args...)
		v.Count("cli_invocations", 1)
		if code == -2 {
			return v.Violate("create-never-exits", "`updog %s` never exits: all threads asleep, no CPU time for 10 s (malform=%q present=%q)\n%s", strings.Join(args[:len(args)-2], " "), cs.Malform, cs.Present, clipStr(outText, 600))
		}
		if code == -3 || code == -1 {
			return v.Harness("`updog create` did not finish within 5 minutes while still active (inconclusive): %s", clipStr(outText, 300))
		}
		if cs.Present != "" {
			if code == 0 {
				return v.Violate("existing-output-accepted", "`updog %s` exited 0 although the output file already exists (%s)", strings.Join(args[:len(args)-2], " "), cs.Present)
			}
			if after := statSig(out) + presetSide(out, cs.Present); after != before {
				return v.Violate("existing-output-touched", "`updog create` (%s mode) changed an existing output (%s) or wrote through it: %s -> %s", mode, cs.Present, before, after)
			}
			v.Count("probe_existing_output", 1)
			continue
		}
		if cs.Malform != "" {
			if code == 0 {
				return v.Violate("malformed-csv-accepted", "`updog create` (%s mode) exited 0 on a malformed CSV (%s at record %d)", mode, cs.Malform, cs.MalAt)
			}
			v.Count("probe_malformed_csv", 1)
			continue
		}
		if code != 0 && cs.PriorKill > 0 {
			// after a killed earlier run the statement does not promise success: refusing (and
			// leaving no output) is clean; what must never happen is a wrong index
			if _, err := os.Lstat(out); err != nil {
				v.Count("rerun_refused_after_killed_run", 1)
				continue
			}
		}
		if code != 0 {
			return v.Violate("create-failed", "`updog create` (%s mode) exited %d on a well-formed CSV:\n%s", mode, code, clipStr(outText, 1500))
		}
		idx, err := updog.OpenIndex(out)
		if err != nil {
			return v.Violate("open-error", "the index written by `updog create` (%s mode) does not open: %v", mode, err)
		}
		opened = append(opened, idx)
		sig, det := probeIndex(idx, ref, "", 400, c.Seed)
		if sig == "" && len(rows) > 0 {
			// row i = record i: the first column's value on each of a sample of rows, via AND with every other column of that record
			step := len(rows)/60 + 1
			for i := 0; i < len(rows) && sig == ""; i += step {
				var kids []*Expr
				for _, kv := range rows[i] {
					kids = append(kids, Eq(string(kv[0]), string(kv[1])))
				}
				q := &Query{Expr: And(kids...)}
				res, err := idx.Execute(q.ToUpdog())
				if d := CompareResult(ref.Execute(q), res, err); d != "" {
					sig, det = "record-mixed", fmt.Sprintf("record %d as one row (%s): %s", i, q, d)
				}
			}
		}
		if sig != "" {
			if hasCRLF && crlfExplains(cs, idx) {
				return v.Violate("csv-crlf-in-quoted-field", "CR LF inside a quoted field is read back as LF (encoding/csv): %s", det)
			}
			return v.Violate("csv-"+sig, "`updog create` (%s mode): %s", mode, det)
		}
		code, outText = runBin("schema", "-f", out)
		if code != 0 {
			return v.Violate("schema-cmd-failed", "`updog schema -f` exited %d:\n%s", code, clipStr(outText, 800))
		}
		v.Count("indexes_verified", 1)
	}
	return v
}

// crlfExplains: the index equals the reference of the records with CR LF replaced by LF.
func crlfExplains(cs C19Case, idx *updog.Index) bool {
	var rows []Row
	for _, rec := range cs.Records {
		var row Row
		for j, x := range rec {
			row = append(row, [2]S{S(normHeader(string(cs.Header[j]))), S(strings.ReplaceAll(string(x), "\r\n", "\n"))})
		}
		rows = append(rows, row)
	}
	sig, _ := probeIndex(idx, NewRefIndex(rows), "", 400, 1)
	return sig == ""
}

func clipStr(s string, n int) string {
	if len(s) > n {
		return s[:n] + "…"
	}
	return s
}

// ------------------------------------------------------------------------- C16

type C16Case struct {
	Data    Dataset   `json:"data"`
	Present string    `json:"present"` // empty | index | garbage | readonly
	Writer  string    `json:"writer"`  // flush | cli | cli-big
	Opens   []OpenCfg `json:"opens"`
	Queries []*Query  `json:"queries"`
	Repeat  int       `json:"repeat"`
}

func genC16(c *Ctx) any {
	r := c.Rand("c16")
	cs := &C16Case{}
	cs.Data.Spec = GenDataSpec(c.Rand("data"), r.Range(1, 200), false)
	if r.Chance(1, 12) {
		cs.Data.Spec.N = 0 // an index without rows
	}
	if r.Chance(1, 8) {
		// many keys: a read path that behaves differently beyond some number of bitmaps
		cs.Data.Spec.N = r.Range(1200, 2500)
		cs.Data.Spec.Cols = append(cs.Data.Spec.Cols, ColSpec{Name: "wide", Card: r.Range(1001, 2200), Shape: "uniform", Kind: "num"})
	}
	cs.Present = append([]string{"readonly"}, presentKinds...)[r.Intn(1+len(presentKinds))]
	cs.Writer = []string{"flush", "flush", "cli", "cli-big"}[r.Intn(4)]
	for i, n := 0, r.Range(1, 3); i < n; i++ {
		cs.Opens = append(cs.Opens, genOpenCfg(r, true))
	}
	si := infoOf(cs.Data.Spec.Expand())
	cs.Queries = relatedQueries(r, si, r.Range(3, 25))
	cs.Repeat = r.Range(1, 3)
	return cs
}

func runC16(c *Ctx, body json.RawMessage) *Verdict {
	v := OK()
	var cs C16Case
	if err := json.Unmarshal(body, &cs); err != nil {
		return v.Harness("decode: %v", err)
	}
	v.CaseKey = hashJSON(&cs)
	for _, q := range cs.Queries {
		if !q.Valid() {
			return Invalid("malformed expression")
		}
	}
	rows := cs.Data.Expand()
	// (1) a writer whose output path exists must fail and leave the file alone
	out := c.Path("exists.updog")
	if err := presetFile(c, out, cs.Present); err != nil {
		return v.Harness("preset: %v", err)
	}
	before := statSig(out) + presetSide(out, cs.Present)
	switch cs.Writer {
	case "flush":
		w := updog.NewIndexWriter(out)
		for _, r := range rows {
			if _, err := w.AddRow(r.Map()); err != nil {
				return v.Harness("AddRow: %v", err)
			}
		}
		var err error
		if p := guard(func() { err = w.Flush() }); p != "" {
			return v.Violate("panic", "Flush on an existing path panicked: %s", p)
		}
		if err == nil {
			return v.Violate("existing-output-accepted", "IndexWriter.Flush returned nil although %s already exists (%s)", out, cs.Present)
		}
	default:
		in := c.Path("in.csv")
		crows := rows
		if len(crows) > 0 {
			// CSV needs one column set: use the first row's columns for all
			var fixed []Row
			for i := range crows {
				fixed = append(fixed, Row{{"a", S(fmt.Sprint("v", i%5))}, {"b", S(fmt.Sprint("w", i%3))}})
			}
			crows = fixed
		}
		if err := writeCSV(in, crows); err != nil {
			return v.Harness("%v", err)
		}
		args := []string{"create", "-o", out, in}
		if cs.Writer == "cli-big" {
			args = []string{"create", "-b", "-o", out, in}
		}
		code, _ := runBin(args...)
		if code == -2 {
			return v.Violate("create-never-exits", "`updog %s` never exits on an existing output", strings.Join(args[:3], " "))
		}
		if code == -3 || code == -1 {
			return v.Harness("`updog create` did not finish (inconclusive)")
		}
		if code == 0 {
			return v.Violate("existing-output-accepted", "`updog %s` exited 0 although the output exists (%s)", strings.Join(args[:3], " "), cs.Present)
		}
		v.Count("cli_invocations", 1)
	}
	if after := statSig(out) + presetSide(out, cs.Present); after != before {
		return v.Violate("existing-output-touched", "writer %s changed the pre-existing output (%s) or wrote through it: %s -> %s", cs.Writer, cs.Present, before, after)
	}
	v.Count("fault_preexisting_"+cs.Present, 1)
	_ = os.Chmod(out, 0o644)

	// (2) reading never modifies the index
	path := c.Path("ro.updog")
	if _, err := BuildIndex("mem-file", path, rows); err != nil {
		return v.Harness("build: %v", err)
	}
	sha := statSig(path)
	d := simrt.NewDisk()
	d.ExpectRO[path] = true
	simrt.AttachDisk(d)
	defer simrt.AttachDisk(nil)
	for rep := 0; rep < cs.Repeat; rep++ {
		for _, oc := range cs.Opens {
			idx, _, err := OpenIndex(path, oc, c.Seed)
			if err != nil {
				return v.Violate("open-error", "open (%s) failed: %v", oc.Class(), err)
			}
			for _, q := range cs.Queries {
				_, _ = idx.Execute(q.ToUpdog())
			}
			idx.GetSchema()
			if err := idx.Close(); err != nil {
				return v.Violate("close-error", "Close failed: %v", err)
			}
			v.Count("read_histories", 1)
			if now := statSig(path); now != sha {
				return v.Violate("index-modified-by-reading", "open (%s) + %d queries + GetSchema + Close changed the index file: %s -> %s", oc.Class(), len(cs.Queries), sha, now)
			}
		}
	}
	if fl := d.Files[path]; fl != nil && fl.Stray > 0 {
		return v.Violate("stray-write", "%d writes reached the index file while it was only read", fl.Stray)
	}
	v.NonTrivial = len(cs.Queries) >= 2
	v.StateKey = simrt.Hash3(simrt.HashStr(cs.Present+cs.Writer), uint64(len(cs.Opens)), uint64(len(cs.Queries)))
	return v
}
