package verifsim

// C06 — index creation is crash-atomic. The writer runs on the simulated disk (bbolt and
// the file are real, every page/meta write goes through our proxy). From the write log the
// world synthesises what a crash would leave: exhaustively at every commit boundary,
// sampled between the syncs of one commit (applied / lost / torn writes, torn meta), plus
// injected write errors (EIO, ENOSPC, short write). Every image is opened on-demand and
// preloaded under the fake-clock hang watchdog. Allowed: absent, rejected with an error, or
// an index that answers every probe like the complete one. Nothing else.

import (
	"context"
	"encoding/json"
	"fmt"
	"os"
	"os/exec"
	"strings"
	"time"

	"github.com/akrennmair/updog"
	"github.com/akrennmair/updog/verifcli"
	"verif/simrt"
)

type C06Case struct {
	Data     Dataset  `json:"data"`
	Writer   string   `json:"writer"`              // mem-file | mem-db | big | cli | cli-big | kill | kill-big (real binary, SIGKILL at the N-th pwrite64)
	Kills    []int    `json:"kills,omitempty"`     // per-mille positions in the write sequence at which the real process is killed
	FSize    []int    `json:"fsize,omitempty"`     // kill tier: per-mille of the final output size at which the REAL binary meets its file size limit (RLIMIT_FSIZE: every write of the process beyond it fails with EFBIG, short)
	GdbCut   [][2]int `json:"gdb_cut,omitempty"`   // kill tier: {per-mille position among the data-writing system calls of the process, per-mille of the final output size}: from that call on the process has that file size limit and dies at its first SIGXFSZ (death in the middle of a write or copy)
	TmpOther bool     `json:"tmp_other,omitempty"` // kill tier: TMPDIR of the child is on another file system (/dev/shm)
	Large    bool     `json:"large,omitempty"`     // several MiB of bitmaps (hundreds of thousands of distinct values): size thresholds of anything that batches by bytes
	Samples  int      `json:"samples"`             // sampled sub-commit crash images
	WriteErr []WErr   `json:"write_errors"`
	Queries  []*Query `json:"queries"`
}

type WErr struct {
	At    int    `json:"at"`             // per-mille position in the write sequence of the output file
	Kind  string `json:"kind"`           // eio | enospc
	Short bool   `json:"short"`          // a prefix of the buffer is written first
	Temp  bool   `json:"temp,omitempty"` // the failing write is one of the big writer's TEMP database, not of the output
}

func init() {
	register("C06", &World{Gen: genC06, Run: runC06})
}

func genC06(c *Ctx) any {
	r := c.Rand("c06")
	cs := &C06Case{}
	cs.Writer = []string{"mem-file", "mem-file", "mem-db", "big", "cli", "cli-big"}[r.Intn(6)]
	if r.Chance(1, 8) || os.Getenv("VERIF_C06_ONLY_KILL") != "" {
		// (VERIF_C06_ONLY_KILL: focused exploration of the process tier; never set by a registered command)
		// supplementary process tier: the real `updog create` killed by SIGKILL at a seeded write
		cs.Writer = []string{"kill", "kill-big"}[r.Intn(2)]
		for i, n := 0, r.Range(3, 6); i < n; i++ {
			cs.Kills = append(cs.Kills, r.Intn(1000))
		}
		cs.Large = r.Chance(1, 4)
		for i, n := 0, r.Range(0, 4); i < n; i++ {
			cs.FSize = append(cs.FSize, r.Intn(1000))
		}
		cs.TmpOther = r.Chance(1, 3)
		if rg := c.Rand("c06-gdb"); !cs.Large && rg.Chance(2, 3) {
			for i, n := 0, rg.Range(1, 3); i < n; i++ {
				k := rg.Intn(1001)
				if rg.Chance(1, 2) {
					k = 1000 - rg.Intn(3) // the last calls: where an index built elsewhere is published
				}
				cs.GdbCut = append(cs.GdbCut, [2]int{k, 1 + rg.Intn(999)})
			}
		}
		if rg := c.Rand("c06-gdb-copy"); cs.TmpOther && !cs.Large {
			// an index built under TMPDIR has to be copied to another file system: die inside that copy
			for i := 0; i < 3; i++ {
				cs.GdbCut = append(cs.GdbCut, [2]int{1000, 250*(i+1) + rg.Intn(240)})
			}
		}
	}
	// datasets on both sides of the 1000-value and 1000-row batches
	vals := []int{0, 1, 5, 999, 1000, 1001, 2001, 3500}[r.Intn(8)]
	rows := []int{1, 3, 50, 999, 1000, 1001, 2001}[r.Intn(7)]
	if !c.Thorough() && r.Chance(1, 2) {
		vals = []int{1, 5, 40, 1001}[r.Intn(4)]
		rows = []int{1, 3, 50, 1001}[r.Intn(4)]
	}
	if !strings.HasPrefix(cs.Writer, "kill") && !strings.HasPrefix(cs.Writer, "cli") && r.Chance(1, 10) {
		// tens of thousands of values, more than a MiB of payload: thresholds of writers that batch by count or bytes
		vals = []int{12000, 21000, 35000}[r.Intn(3)]
	}
	if vals > rows*3 {
		rows = vals/3 + 1
	}
	sp := &DataSpec{Seed: r.U64() | 1, N: rows, Unique: "u"}
	if strings.HasPrefix(cs.Writer, "cli") {
		sp.Unique = "u"
	}
	// the unique column alone contributes `rows` values; spread the rest over 1..3 columns
	nc := r.Range(1, 3)
	for i := 0; i < nc; i++ {
		card := vals / nc
		if card < 1 {
			card = 1
		}
		sp.Cols = append(sp.Cols, ColSpec{Name: S(colNames[i]), Card: card, Shape: "uniform", Kind: "num", Missing: []int{0, 0, 200}[r.Intn(3)]})
	}
	if strings.HasPrefix(cs.Writer, "cli") || strings.HasPrefix(cs.Writer, "kill") {
		for i := range sp.Cols {
			sp.Cols[i].Missing = 0 // CSV records carry every column
		}
	}
	if cs.Large {
		sp.N = r.Range(15000, 25000)
		sp.Cols = nil
		for i, nc := 0, r.Range(8, 12); i < nc; i++ {
			sp.Cols = append(sp.Cols, ColSpec{Name: S(colNames[i]), Card: sp.N, Shape: "unique", Kind: "num"})
		}
	}
	cs.Data.Spec = sp
	cs.Samples = 6
	if c.Thorough() {
		cs.Samples = 30
	}
	for i, n := 0, r.Range(1, 3); i < n; i++ {
		cs.WriteErr = append(cs.WriteErr, WErr{At: r.Intn(1000), Kind: []string{"eio", "enospc"}[r.Intn(2)], Short: r.Chance(1, 3),
			Temp: (cs.Writer == "big" || cs.Writer == "cli-big") && r.Chance(1, 2)})
	}
	si := infoOf(sp.Expand())
	for i := 0; i < 12; i++ {
		cs.Queries = append(cs.Queries, &Query{Expr: GenExpr(r, si, r.Range(1, 3), ExprOpts{MaxArity: 3})})
	}
	return cs
}

// writeIndex runs the writer under test once. It returns the writer's error.
func writeIndex(c *Ctx, kind, out string, rows []Row) (err error, panicked string, hung string) {
	panicked, hung = guardHang(func() {
		switch kind {
		case "cli", "cli-big":
			in := out + ".csv"
			if e := writeCSV(in, rows); e != nil {
				err = fmt.Errorf("harness: %w", e)
				return
			}
			err = verifcli.Create(in, out, kind == "cli-big", false)
		default:
			_, err = BuildIndex(kind, out, rows)
		}
	})
	return err, panicked, hung
}

// writeCSV writes rows (all with the same columns, in spec order) as RFC 4180.
func writeCSV(path string, rows []Row) error {
	var sb strings.Builder
	if len(rows) == 0 {
		return os.WriteFile(path, []byte("u\n"), 0o644)
	}
	var hdr []string
	for _, kv := range rows[0] {
		hdr = append(hdr, csvField(string(kv[0])))
	}
	sb.WriteString(strings.Join(hdr, ",") + "\r\n")
	for _, r := range rows {
		var f []string
		for _, kv := range r {
			f = append(f, csvField(string(kv[1])))
		}
		sb.WriteString(strings.Join(f, ",") + "\r\n")
	}
	return os.WriteFile(path, []byte(sb.String()), 0o644)
}

func csvField(s string) string {
	if s == "" || strings.ContainsAny(s, "\",\r\n ") {
		return `"` + strings.ReplaceAll(s, `"`, `""`) + `"`
	}
	return s
}

// recoverImages opens every image on demand and preloaded under the hang watchdog and
// applies the oracle: rejected with an error, or equivalent to the complete index.
func recoverImages(c *Ctx, v *Verdict, images []imageSpec, ref *RefIndex, queries []*Query) (bad *outc, progress string, res *simrt.Result) {
	// recovery: open every image, on demand and preloaded, under the hang watchdog
	c.Bubble(func() {
		task := func() {
			for ii, im := range images {
				for _, pre := range []bool{false, true} {
					progress = fmt.Sprintf("image %d (%s) preload=%v", ii, im.name, pre)
					path := c.Path(fmt.Sprintf("img-%d-%v.updog", ii, pre))
					if err := os.WriteFile(path, im.data, 0o644); err != nil {
						bad = &outc{"harness", err.Error()}
						return
					}
					var idx *updog.Index
					var err error
					var opts []updog.IndexOption
					if pre {
						opts = append(opts, updog.WithPreloadedData())
					}
					if p := guard(func() { idx, err = updog.OpenIndex(path, opts...) }); p != "" {
						bad = &outc{"open-panic", fmt.Sprintf("%s: OpenIndex panicked: %s", progress, p)}
						return
					}
					if err != nil {
						v.Count("outcome_rejected", 1)
						os.Remove(path)
						continue
					}
					sig, det := probeIndex(idx, ref, "u", 300, c.Seed)
					if sig == "" {
						for _, q := range queries {
							var r *updog.Result
							var e error
							if p := guard(func() { r, e = idx.Execute(q.ToUpdog()) }); p != "" {
								sig, det = "panic", "Execute panicked: "+p
								break
							}
							if dd := CompareResult(ref.Execute(q), r, e); dd != "" {
								sig, det = "wrong-count", fmt.Sprintf("%s: %s", q, dd)
								break
							}
						}
					}
					idx.Close()
					os.Remove(path)
					if sig != "" {
						bad = &outc{"partial-index-accepted", fmt.Sprintf("%s: the image opens as an index but does not answer like the complete one (%s): %s", progress, sig, det)}
						return
					}
					v.Count("outcome_equivalent", 1)
				}
				if im.mid {
					v.NonTrivial = true
					v.Count("crash_points_strictly_inside_creation", 1)
				}
			}
		}
		res = simrt.Run(simrt.Config{Strategy: "seq"}, []func(){task})
	})
	return bad, progress, res
}

type outc struct {
	sig, detail string
}

type imageSpec struct {
	name string
	data []byte
	mid  bool // strictly between first creation and last commit
}

func runC06(c *Ctx, body json.RawMessage) *Verdict {
	v := OK()
	var cs C06Case
	if err := json.Unmarshal(body, &cs); err != nil {
		return v.Harness("decode: %v", err)
	}
	v.CaseKey = hashJSON(&cs)
	for _, q := range cs.Queries {
		if !q.Valid() {
			return Invalid("malformed expression")
		}
	}
	rows := cs.Data.Expand()
	if strings.HasPrefix(cs.Writer, "kill") {
		return runC06Kill(c, &cs, v, rows)
	}
	if strings.HasPrefix(cs.Writer, "cli") {
		// a CSV has one column set for all records
		for _, r := range rows {
			if len(rows) > 0 && len(r) != len(rows[0]) {
				return Invalid("ragged rows cannot be expressed as CSV")
			}
		}
	}
	ref := NewRefIndex(rows)
	out := c.Path("out.updog")
	mapSeed := c.Seed | 1
	simrt.SetMapSeed(mapSeed)
	d := simrt.NewDisk()
	simrt.AttachDisk(d)
	werr, p, hung := writeIndex(c, cs.Writer, out, rows)
	simrt.AttachDisk(nil)
	if hung != "" {
		v.Fatal = true
		return v.Violate("writer-hang", "writer %s never returns on a healthy disk:\n%s", cs.Writer, hung)
	}
	if p != "" {
		return v.Violate("writer-panic", "writer %s panicked: %s", cs.Writer, p)
	}
	if werr != nil {
		return v.Violate("write-error", "writer %s failed on a healthy disk: %v", cs.Writer, werr)
	}
	fl := d.Files[out]
	if fl == nil {
		// the writer may build the index under another name and rename it into place: follow
		// the file that ended up at the output path
		for _, p := range d.Order {
			if ws := d.Files[p].Writes; len(ws) > 0 && ws[len(ws)-1].Path == out {
				fl = d.Files[p]
			}
		}
	}
	if fl == nil {
		if _, err := os.Lstat(out); err == nil {
			// written without going through bbolt.Open of the output path at all (e.g. copied or
			// renamed after the last write): in-process images cannot be synthesised; the
			// process tier (SIGKILL) still applies to such a tree
			v.Count("output_not_traced", 1)
			return v
		}
		return v.Harness("output file was not opened through the disk proxy")
	}
	// atPath: while the file does not (yet) carry the output's name, the output path is absent
	renamed := fl.Path != out
	if renamed {
		v.Count("probe_output_renamed_into_place", 1)
	}
	ev := fl.Events()
	nsync := 0
	for _, e := range ev {
		if e.Sync {
			nsync++
		}
	}
	metaIdx := []int{}
	for i, e := range ev {
		if !e.Sync && e.Write.Meta {
			metaIdx = append(metaIdx, i)
		}
	}
	v.Count("commits_observed", int64(len(metaIdx)))
	v.Count("writes_logged", int64(len(fl.Writes)))
	allApplied := func(w *simrt.WriteRec) (simrt.Fate, uint64) { return simrt.Applied, 0 }

	// atPath: while the file does not (yet) carry the output's name, the output path is absent
	atPath := func(k int) bool {
		if !renamed {
			return true
		}
		for i := k; i >= 0 && i < len(ev); i-- {
			if !ev[i].Sync {
				return ev[i].Write.Path == out
			}
		}
		return false
	}
	var images []imageSpec
	// during bbolt.Open's own initialisation
	if fl.Fresh && !renamed {
		// (a torn 4-page initialisation write is a power-failure image that only exercises
		// bbolt's own Open — trusted, and it dies with SIGBUS on a short file — so it is not
		// generated; a process kill cannot tear that single write)
		images = append(images, imageSpec{name: "created-but-empty", data: []byte{}})
	}
	// exhaustive: every commit boundary (k=-1: initialised, nothing committed)
	if !renamed {
		images = append(images, imageSpec{name: "initialised, nothing committed", data: fl.Image(ev, -1, allApplied)})
	}
	lastEvent := len(ev) - 1
	for i, e := range ev {
		if !e.Sync {
			continue
		}
		if !atPath(i) {
			v.Count("outcome_absent", 1)
			continue
		}
		afterMeta := i > 0 && !ev[i-1].Sync && ev[i-1].Write.Meta
		name := fmt.Sprintf("after sync #%d (data pages durable, meta not written)", i)
		if afterMeta {
			name = fmt.Sprintf("after commit boundary at event %d", i)
		}
		images = append(images, imageSpec{name: name, data: fl.Image(ev, i, allApplied), mid: i < lastEvent})
		v.Count("crash_points_commit_granularity", 1)
		if afterMeta && i < lastEvent {
			v.Count("probe_crash_between_two_commits_of_one_flush", 1)
		}
	}
	// sampled: crash between the syncs of one commit with lost / torn writes
	sr := c.Rand("crash-samples")
	for sIdx := 0; sIdx < cs.Samples && len(ev) > 0; sIdx++ {
		k := sr.Intn(len(ev))
		mode := sr.Intn(4)
		seed := sr.U64()
		if !atPath(k) {
			v.Count("outcome_absent", 1)
			continue
		}
		var lost, torn int64
		img := fl.Image(ev, k, func(w *simrt.WriteRec) (simrt.Fate, uint64) {
			h := simrt.Hash3(seed, uint64(w.Idx), 5) % 10
			switch {
			case mode == 3 && w.Meta:
				torn++
				return simrt.Torn, seed
			case h < 5:
				return simrt.Applied, 0
			case h < 8:
				lost++
				return simrt.Lost, 0
			default:
				torn++
				return simrt.Torn, seed
			}
		})
		v.Count("fault_lost_writes", lost)
		v.Count("fault_torn_writes", torn)
		v.Count("crash_images_sampled", 1)
		images = append(images, imageSpec{name: fmt.Sprintf("crash after event %d/%d with %d lost and %d torn pending writes (sample seed %d)", k, len(ev), lost, torn, seed), data: img, mid: k < lastEvent})
	}

	// write errors: the writer must fail, and the file as it stands is one more image
	for wi, we := range cs.WriteErr {
		if len(fl.Writes) == 0 {
			break
		}
		at := we.At * len(fl.Writes) / 1000
		path := c.Path(fmt.Sprintf("werr-%d.updog", wi))
		d2 := simrt.NewDisk()
		d2.FailAt, d2.FailErr, d2.FailShort, d2.FailOnly = at, we.Kind, we.Short, path
		if we.Temp {
			ntemp := 0
			for _, p := range d.Order {
				if p != out {
					ntemp += len(d.Files[p].Writes)
				}
			}
			if ntemp == 0 {
				continue
			}
			at = we.At * ntemp / 1000
			d2.FailAt, d2.FailOnly, d2.FailExcept = at, "", path
		}
		simrt.SetMapSeed(mapSeed)
		simrt.AttachDisk(d2)
		err2, p2, hung2 := writeIndex(c, cs.Writer, path, rows)
		simrt.AttachDisk(nil)
		if hung2 != "" {
			v.Fatal = true
			return v.Violate("writer-hang", "writer %s never returns after an injected %s at write %d of %d (blocked on a mutex):\n%s", cs.Writer, we.Kind, at, len(fl.Writes), hung2)
		}
		if p2 != "" {
			return v.Violate("writer-panic", "writer %s panicked after an injected %s at write %d: %s", cs.Writer, we.Kind, at, p2)
		}
		if d2.Fired > 0 {
			v.Count("fault_write_error_"+we.Kind, 1)
			if we.Temp {
				v.Count("fault_write_error_in_temp_db", 1)
			}
			if we.Short {
				v.Count("fault_short_write", 1)
			}
			if err2 == nil {
				which := "the output file"
				if we.Temp {
					which = "the temporary database"
				}
				return v.Violate("write-error-swallowed", "writer %s returned nil although write %d of %s failed with %s", cs.Writer, at, which, we.Kind)
			}
			if b, e := os.ReadFile(path); e == nil {
				images = append(images, imageSpec{name: fmt.Sprintf("file left behind after %s at write %d/%d (writer returned: %v)", we.Kind, at, len(fl.Writes), err2), data: b, mid: true})
			}
		}
		os.Remove(path)
	}
	simrt.SetMapSeed(0)

	bad, progress, res := recoverImages(c, v, images, ref, cs.Queries)
	v.Count("outcome_absent", 1) // "file does not exist yet" needs no recovery
	v.Count("images_checked", int64(len(images)))
	v.StateKey = simrt.Hash3(simrt.HashStr(cs.Writer), uint64(len(metaIdx)), uint64(bucket(len(rows))))
	if res != nil && (res.Hang || res.Deadlock) {
		v.Fatal = true
		return v.Violate("open-hang", "%s: opening never returned\n%s", progress, hangStacks(res.Stacks))
	}
	if res != nil {
		for _, p := range res.Panics {
			return v.Violate("open-panic", "%s: %s\n%s", progress, p.Value, trimStacks(p.Stack))
		}
	}
	if bad != nil {
		if bad.sig == "harness" {
			return v.Harness("%s", bad.detail)
		}
		return v.Violate(bad.sig, "%s", bad.detail)
	}
	return v
}

// killedRun runs the instrumented twin of `updog create` as a child that sends itself SIGKILL
// right before its n-th bbolt write (process-wide count, program order: replays exactly).
// n <= 0 only counts the writes of an undisturbed run. Returns the number of writes seen.
func killedRun(c *Ctx, n int, args ...string) (int, error) {
	nw, _, err := killedRunLog(c, n, "", args...)
	return nw, err
}

// killedRunLog additionally returns the 1-based positions (in the process-wide write
// sequence) of the writes that went to the file named target.
func killedRunLog(c *Ctx, n int, target string, args ...string) (int, []int, error) {
	bin := os.Getenv("VERIF_UPDOG_SIM_BIN")
	if bin == "" {
		return 0, nil, fmt.Errorf("VERIF_UPDOG_SIM_BIN not set")
	}
	log := c.Path("writes.log")
	os.Remove(log)
	os.Remove(log + ".files")
	cmd := exec.Command(bin, args...)
	tmp := c.Dir
	if c.childTmp != "" {
		tmp = c.childTmp
	}
	cmd.Env = append(os.Environ(), "TMPDIR="+tmp, "VERIF_WRITE_LOG="+log)
	if n > 0 {
		cmd.Env = append(cmd.Env, fmt.Sprintf("VERIF_KILL_AT_WRITE=%d", n))
	}
	_ = cmd.Run()
	b, err := os.ReadFile(log)
	if err != nil {
		return 0, nil, err
	}
	var pos []int
	if target != "" {
		var tag byte
		if fb, e := os.ReadFile(log + ".files"); e == nil {
			for _, line := range strings.Split(string(fb), "\n") {
				if len(line) > 2 && line[2:] == target {
					tag = line[0]
				}
			}
		}
		for i, x := range b {
			if tag != 0 && x == tag {
				pos = append(pos, i+1)
			}
		}
	}
	return len(b), pos, nil
}

// runC06Kill is the process tier: the instrumented twin of the real `updog create` is killed
// by SIGKILL right before its N-th bbolt write; whatever the process left on disk is an image
// for the same recovery oracle.
func runC06Kill(c *Ctx, cs *C06Case, v *Verdict, rows []Row) *Verdict {
	for _, r := range rows {
		if len(r) != len(rows[0]) {
			return Invalid("ragged rows cannot be expressed as CSV")
		}
	}
	ref := NewRefIndex(rows)
	in := c.Path("in.csv")
	if err := writeCSV(in, rows); err != nil {
		return v.Harness("%v", err)
	}
	mode := []string{"create"}
	if cs.Writer == "kill-big" {
		mode = []string{"create", "-b"}
	}
	if cs.TmpOther {
		if st, err := os.Stat("/dev/shm"); err == nil && st.IsDir() {
			if d, err := os.MkdirTemp("/dev/shm", "verif-tmp-"); err == nil {
				c.childTmp = d
				defer func() { os.RemoveAll(d); c.childTmp = "" }()
				v.Count("fault_tmpdir_on_other_filesystem", 1)
			}
		}
	}
	full := c.Path("full.updog")
	nw, outPos, err := killedRunLog(c, 0, full, append(mode, "-o", full, in)...)
	if err != nil || nw == 0 {
		return v.Harness("baseline run of the instrumented binary: %v (%d writes)", err, nw)
	}
	var images []imageSpec
	for ki, pm := range cs.Kills {
		n := 1 + pm*nw/1000
		if ki%2 == 1 && len(outPos) > 0 {
			// every other kill lands among the writes of the OUTPUT file itself (which may be a
			// small tail of the run when the index is first built elsewhere)
			n = outPos[pm*len(outPos)/1000]
			v.Count("fault_sigkill_among_output_writes", 1)
		}
		out := c.Path(fmt.Sprintf("killed-%d.updog", ki))
		_, _ = killedRun(c, n, append(mode, "-o", out, in)...)
		v.Count("fault_sigkill_before_write", 1)
		b, err := os.ReadFile(out)
		if err != nil {
			v.Count("outcome_absent", 1)
			continue
		}
		images = append(images, imageSpec{name: fmt.Sprintf("`updog %s` killed by SIGKILL before bbolt write #%d of %d", strings.Join(mode, " "), n, nw), data: b, mid: true})
		os.Remove(out)
	}
	// the REAL binary under a file size limit: every write (of any file: output, temporary database, copies)
	// that would grow a file beyond the limit fails short with EFBIG; what the failed run leaves is an image
	if fi, err := os.Stat(full); err == nil && len(cs.FSize) > 0 {
		tmp := c.Dir
		if c.childTmp != "" {
			tmp = c.childTmp
		}
		for fk, pm := range cs.FSize {
			blocks := 1 + int64(pm)*(fi.Size()/512)/1000
			out := c.Path(fmt.Sprintf("fsize-%d.updog", fk))
			sh := exec.Command("/bin/sh", "-c", fmt.Sprintf("ulimit -f %d && exec \"$0\" \"$@\"", blocks), os.Getenv("VERIF_UPDOG_BIN"))
			sh.Args = append(sh.Args, append(mode, "-o", out, in)...)
			sh.Env = append(os.Environ(), "TMPDIR="+tmp)
			var err error
			switch rc, text := runCmd(sh); rc {
			case 0:
			case -2:
				// no deferred clean-up ever runs: what it left is an image, too; the hang itself is the verdict
				return v.Violate("writer-hang", "`updog %s` under a file size limit of %d bytes never exits: all threads asleep, no CPU time for 10 s\n%s", strings.Join(mode, " "), blocks*512, clipStr(text, 600))
			case -3, -1:
				return v.Harness("child under a file size limit: rc %d: %s", rc, clipStr(text, 300))
			default:
				err = fmt.Errorf("exit status %d", rc)
			}
			v.Count("fault_file_size_limit_runs", 1)
			b, rerr := os.ReadFile(out)
			if rerr != nil {
				v.Count("outcome_absent", 1)
				continue
			}
			if err == nil {
				v.Count("file_size_limit_not_reached", 1)
			}
			if err != nil && len(b) < 4*os.Getpagesize() {
				// bbolt's own four-page initialisation write was cut short: opening such a file makes bbolt touch
				// pages beyond the end of its mapping (SIGBUS). bbolt's domain, as for the torn initialisation
				// images of the in-process tier; a process death cannot produce it.
				v.Count("outcome_torn_bbolt_initialisation_not_judged", 1)
				os.Remove(out)
				continue
			}
			images = append(images, imageSpec{name: fmt.Sprintf("`updog %s` under a file size limit of %d bytes (exit: %v)", strings.Join(mode, " "), blocks*512, err), data: b, mid: err != nil})
			os.Remove(out)
		}
	}
	if fi, err := os.Stat(full); err == nil && len(cs.GdbCut) > 0 {
		imgs, hv := gdbCutRuns(c, v, cs, fi.Size(), mode, in)
		if hv != nil {
			return hv
		}
		images = append(images, imgs...)
	}
	bad, progress, res := recoverImages(c, v, images, ref, cs.Queries)
	v.Count("images_checked", int64(len(images)))
	if cs.Large {
		v.Count("probe_large_payload_kill", 1)
	}
	v.StateKey = simrt.Hash3(simrt.HashStr(cs.Writer), uint64(nw), uint64(bucket(len(rows))))
	if res != nil && (res.Hang || res.Deadlock) {
		v.Fatal = true
		return v.Violate("open-hang", "%s: opening never returned", progress)
	}
	if res != nil {
		for _, p := range res.Panics {
			return v.Violate("open-panic", "%s: %s", progress, p.Value)
		}
	}
	if bad != nil {
		if bad.sig == "harness" {
			return v.Harness("%s", bad.detail)
		}
		return v.Violate(bad.sig, "%s", bad.detail)
	}
	return v
}

// gdbCutScript drives the instrumented `updog` binary (same code, map order decided by the seed, so that the
// sequence of system calls is a function of the case) under gdb: the process runs until just before its K-th
// data-writing system call (write/pwrite64 of >= 512 bytes, sendfile, copy_file_range; counted over all
// threads), then gets a file size limit and is killed at its first SIGXFSZ. What the kernel had written below
// the limit stays: a process death in the MIDDLE of a write or of a file copy, which a SIGKILL placed between
// two bbolt writes cannot produce. K=0 counts the calls.
const gdbCutScript = `import gdb, os, subprocess
K = int(os.environ.get("VERIF_GDB_K", "0"))
LIMIT = int(os.environ.get("VERIF_GDB_LIMIT", "0"))
for c in ("set pagination off", "set confirm off", "set print thread-events off", "set startup-with-shell off",
          "handle SIGURG nostop noprint pass", "handle SIGPIPE nostop noprint pass", "handle SIGXFSZ stop nopass",
          "catch syscall write pwrite64 sendfile copy_file_range",
          ("condition 1 ($orig_rax == 1 || $orig_rax == 18) ? $rdx >= 512 : 1" if K >= 0 else
           "condition 1 $orig_rax == 18 ? 0 : ($orig_rax == 1 ? $rdx >= 512 : 1)")):
    gdb.execute(c)
if K < 0:
    K = -K  # the |K|-th data-moving call that is NOT a positioned page write: a copy of the finished file
def alive():
    return gdb.selected_inferior().pid != 0
def main():
    if K == 0:
        gdb.execute("ignore 1 1000000000")
        gdb.execute("run")
        print("VERIF-GDB count=%d" % (gdb.breakpoints()[0].hit_count // 2))
    else:
        if K > 1:
            gdb.execute("ignore 1 %d" % (2 * (K - 1)))
        gdb.execute("run")
        if not alive():
            print("VERIF-GDB exited-before-cut")
        else:
            subprocess.run(["prlimit", "--pid", str(gdb.selected_inferior().pid), "--fsize=%d:%d" % (LIMIT, LIMIT)], check=True)
            gdb.execute("delete")
            try:
                gdb.execute("continue")
            except gdb.error as e:
                # the process went away while gdb was resuming it ("Couldn't get registers: No such process"):
                # a death after the cut all the same, and what it left is judged like any other
                print("VERIF-GDB died-after-cut")
                return
            if alive():
                try:
                    gdb.execute("kill")
                except gdb.error as e:
                    pass
                print("VERIF-GDB killed-at-limit")
            else:
                print("VERIF-GDB exited-after-cut")
try:
    main()
except Exception as e:
    # gdb lost track of the process ("Couldn't get registers: No such process" when a thread or the process
    # exits while gdb is resuming it): nothing is concluded from such a run
    print("VERIF-GDB lost-process")
`

func gdbRun(c *Ctx, script string, k int, limit int64, args ...string) (string, error) {
	bin := os.Getenv("VERIF_UPDOG_SIM_BIN")
	ctx, cancel := context.WithTimeout(context.Background(), 30*time.Second)
	defer cancel()
	cmd := exec.CommandContext(ctx, "gdb", append([]string{"-nx", "-q", "-batch", "-iex", "set auto-load off", "-x", script, "--args", bin}, args...)...)
	tmp := c.Dir
	if c.childTmp != "" {
		tmp = c.childTmp
	}
	cmd.Env = append(os.Environ(), "TMPDIR="+tmp, fmt.Sprintf("VERIF_GDB_K=%d", k), fmt.Sprintf("VERIF_GDB_LIMIT=%d", limit))
	out, err := cmd.CombinedOutput()
	if ctx.Err() != nil {
		return string(out), fmt.Errorf("gdb run timed out")
	}
	for _, line := range strings.Split(string(out), "\n") {
		if strings.HasPrefix(line, "VERIF-GDB ") {
			return strings.TrimSpace(line[len("VERIF-GDB "):]), nil
		}
	}
	tail := string(out)
	if len(tail) > 700 {
		tail = tail[len(tail)-700:]
	}
	return tail, fmt.Errorf("gdb run gave no result line (%v)", err)
}

// gdbCutRuns returns the images left by the process deaths of cs.GdbCut, or a harness verdict.
func gdbCutRuns(c *Ctx, v *Verdict, cs *C06Case, finalSize int64, mode []string, in string) ([]imageSpec, *Verdict) {
	if _, err := exec.LookPath("gdb"); err != nil {
		v.Count("gdb_unavailable", 1)
		return nil, nil
	}
	if _, err := exec.LookPath("prlimit"); err != nil {
		v.Count("gdb_unavailable", 1)
		return nil, nil
	}
	script := c.Path("gdbcut.py")
	if err := os.WriteFile(script, []byte(gdbCutScript), 0o644); err != nil {
		return nil, v.Harness("gdb script: %v", err)
	}
	base := c.Path("gdb-base.updog")
	res, err := gdbRun(c, script, 0, 0, append(append([]string{}, mode...), "-o", base, in)...)
	os.Remove(base)
	var nsys int
	if err != nil && strings.Contains(err.Error(), "timed out") {
		v.Count("gdb_run_too_slow_skipped", 1)
		return nil, nil
	}
	if err == nil && res == "lost-process" {
		v.Count("gdb_lost_process_not_judged", 1)
		return nil, nil
	}
	if err != nil || !strings.HasPrefix(res, "count=") {
		return nil, v.Harness("baseline run under gdb: %v: %s", err, clipStr(res, 400))
	}
	fmt.Sscanf(res, "count=%d", &nsys)
	if nsys == 0 {
		return nil, v.Harness("baseline run under gdb saw no data-writing system call")
	}
	var images []imageSpec
	for gi, kl := range cs.GdbCut {
		k := 1 + kl[0]*(nsys-1)/1000
		if kl[0] >= 998 {
			// the first, second or third data-moving call that is not a positioned page write (none in a tree that
			// writes the index in place: the run ends undisturbed and leaves the complete file)
			k = kl[0] - 1001
		}
		limit := 1 + int64(kl[1])*finalSize/1000
		out := c.Path(fmt.Sprintf("gdbcut-%d.updog", gi))
		res, err := gdbRun(c, script, k, limit, append(append([]string{}, mode...), "-o", out, in)...)
		if err != nil && strings.Contains(err.Error(), "timed out") {
			v.Count("gdb_run_too_slow_skipped", 1)
			os.Remove(out)
			break
		}
		if err != nil {
			return nil, v.Harness("run under gdb (call %d of %d, limit %d): %v: %s", k, nsys, limit, err, clipStr(res, 800))
		}
		if res == "lost-process" {
			v.Count("gdb_lost_process_not_judged", 1)
			os.Remove(out)
			continue
		}
		v.Count("fault_death_at_file_size_limit_runs", 1)
		v.Count("gdb_"+strings.ReplaceAll(res, "-", "_"), 1)
		if k < 0 && res == "killed-at-limit" {
			v.Count("probe_death_inside_a_file_copy", 1)
		}
		b, rerr := os.ReadFile(out)
		if rerr != nil {
			v.Count("outcome_absent", 1)
			continue
		}
		os.Remove(out)
		if (res == "killed-at-limit" || res == "died-after-cut") && len(b) < 4*os.Getpagesize() {
			v.Count("outcome_torn_bbolt_initialisation_not_judged", 1)
			continue
		}
		images = append(images, imageSpec{name: fmt.Sprintf("`updog %s` given a file size limit of %d bytes before data-writing system call #%d of %d and killed at its first SIGXFSZ (%s)", strings.Join(mode, " "), limit, k, nsys, res), data: b, mid: res != "exited-before-cut" && res != "exited-after-cut"})
	}
	return images, nil
}
