"""Per-property batch sizes, levels and evidence texts."""

REAL_INPROC = {
    "updog library / driver / parser / convert / CLI commands": "real (instrumented copy of the current tree)",
    "roaring, bbolt, database/sql, protobuf, encoding/csv": "real",
    "goroutine scheduling of tasks": "simulated (seeded scheduler, statement-level pre-emption)",
    "clock": "simulated (testing/synctest fake clock)",
    "disk": "real file; write path proxied (log, crash images, write errors) where the world attaches the simulated disk",
    "network": "stub transport (marshal -> unmarshal -> handler call)",
}

def P(level, rule, quick, thorough, **kw):
    d = {"level": level, "rule": rule,
         "quick": {"count": quick[0], "wall": quick[1], "shrink_s": 45},
         "thorough": {"count": thorough[0], "wall": thorough[1], "shrink_s": 240},
         "real_vs_stub": REAL_INPROC}
    d.update(kw)
    return d

PROPS = {
    "C17": P("exploration",
             "seeded histories of 2..7 phases over 1..3 index files x DSN option strings {none, preload, lrucache}: sequential stretches of {sql.Open, Query, Prepare+Stmt.Query, Close, SetMaxOpenConns, SetMaxIdleConns, SetConnMaxIdleTime, advance the fake clock} and concurrent phases of 2..16 tasks using one (often fresh) handle under the seeded scheduler; after every phase each file without an open handle is probed with a non-blocking exclusive flock; non-trivial = a reopen after the last close of a file, or >=2 tasks whose first use of a handle overlaps; distinct = distinct case hash",
             (1200, 120), (40000, 1200),
             assumptions=["database/sql hands a freed pooled connection to a random waiter: concurrent phases keep at most one simultaneous waiter (tasks <= MaxOpenConns+1)"]),
    "C12": P("exploration",
             "seeded cases: dataset x 1..3 DSN option strings {none, preload, lrucache+size 0/small/large, both, invalid size} (one file copy per option string) x 4..14 query texts (0..3 group-by columns, matching nothing/everything, unknown columns, unparsable, bound arguments; DB.Query and Prepare+Stmt.Query); non-trivial = a query with >=2 rows or a grouped query without groups; distinct = distinct case hash",
             (1200, 100), (40000, 900)),
    "C11": P("exploration",
             "seeded cases: query text mixing literals and placeholders (repeated, out of order, gaps) x 1..8 executions with argument lists (strings incl. quotes/newlines/non-ASCII, integers; too few, exact, too many) through Prepare+Stmt.Query, DB.Query and queryparser.ReplacePlaceholders; one third of the cases run the executions of one *sql.Stmt on 2..3 tasks under the seeded scheduler with TSan; non-trivial = >=1 placeholder and >=2 executions; distinct = distinct case hash",
             (1600, 100), (50000, 900),
             assumptions=["database/sql hands a freed pooled connection to a random waiter; scheduled runs keep MaxOpenConns >= tasks so that nobody waits"]),
    "C09": P("exploration",
             "seeded cases of 120 inputs each: grammar-derived sentences (nesting <=6 quick / <=40 thorough, all value shapes, placeholders incl. $0, $007, 2^31-1, 2^31, 2^32+1, 26 digits), token-level mutations (drop/duplicate/swap/insert/trailing tokens, unterminated strings, mixed &/| without parentheses) and raw bytes incl. invalid UTF-8 and NUL; each ParseQuery call is checked for return-at-quiescence (deadlock), goroutine census and accept/reject/tree against RefParser; non-trivial = case with an input of >=3 tokens; distinct = distinct case hash",
             (800, 100), (40000, 900),
             assumptions=["field/blank/value lexical conventions (identifier = [A-Za-z][A-Za-z0-9_]*, blanks = space/tab/CR/LF) are taken from the lexer because the EBNF does not define them"]),
    "C03": P("exploration",
             "seeded cases: index x cache {none, LRU 0, tiny, few, ample} x {on-demand, preloaded} x {plain, lossy cache wrapper} x history of 5..60 related queries, every query re-asked at the end; non-trivial = >=1 cache hit and >=2 distinct expression meanings in the history; distinct = distinct case hash",
             (1600, 100), (60000, 900)),
    "C07": P("exploration",
             "run indices 0..35 enumerate exhaustively all Put/Get histories of length 1..5 (thorough: 6) over 3 keys x {get, put empty, put ~cap/3, put >cap} for capacities {0, 1500, 1 MiB} (counter exhaustive_histories); the remaining runs are seeded random histories of 20..200 operations over 2..12 keys and 8 bitmap sizes for 7 capacities; non-trivial = history of >=3 operations; distinct = distinct case hash. The multi-client half runs under C04 (LRU mode, porcupine).",
             (1200, 100), (30000, 1200)),
    "C01": P("exploration",
             "seeded cases: dataset spec (0..5000 rows quick / ..150k thorough; boundary counts 999-1001, 4095-4097, 65535-65537; >1000 distinct values) x non-empty writer subset x {on-demand, preloaded, caller-supplied DB} x 30-60 expression trees (depth<=6, arity<=5); non-trivial = non-empty dataset and an expression with NOT or >=2 operators whose model count is neither 0 nor n; distinct = distinct case hash",
             (400, 100), (12000, 1200),
             assumptions=["64-bit hash collisions between distinct (column,value) pairs are assumed away", "column names contain no NUL (reported separately as a known finding)"]),
    "C02": P("exploration",
             "as C01 plus group-by lists of length 0..6 over existing, repeated and unknown columns; non-trivial = a query with list length >=2 and >=2 result groups; distinct = distinct case hash",
             (400, 100), (12000, 1200)),
    "C05": P("exploration",
             "seeded cases: AddRow sequence with a unique-per-row column x writers (all three output paths) x open/probe/close/close-again/reopen history (2..8 steps); non-trivial = (>=1001 distinct values or >=1001 rows) and >=1 reopen; distinct = distinct case hash",
             (320, 100), (8000, 1200)),
    "C08": P("exploration",
             "seeded cases: one Query value executed 2..10 times over 1..3 open indexes, interleaved with other queries; non-trivial = non-empty group-by and >=2 executions; distinct = distinct case hash",
             (3000, 60), (100000, 600)),
    "C04": P("exploration",
             "seeded cases: 2..16 tasks x 3..14 ops (Execute/GetSchema on one index, Put/Get on one LRUCache, or gRPC handler calls) under a seeded schedule (rand p or PCT d); non-trivial = >=2 tasks and >=2 context switches actually taken; distinct = distinct hash of the materialised case",
             (1600, 100), (60000, 900),
             assumptions=["Go's `concurrent map` runtime fatal needs real simultaneity and is not simulated; TSan reports the same missing lock deterministically",
                          "grpc-go's own goroutines are not part of the in-process tier"]),
    "C18": P("exploration",
             "seeded cases: 2..32 tasks adding uniquely tagged rows to one writer (in-memory or big) under a seeded schedule; non-trivial = >=2 tasks and >=2 context switches; distinct = distinct case hash",
             (1200, 100), (40000, 900)),
}
