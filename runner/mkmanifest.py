#!/usr/bin/env python3
"""Regenerates /verif/MANIFEST.json from runner/props.py (single source for batch sizes, levels, rules)."""
import json, os, sys
VERIF = os.path.dirname(os.path.dirname(os.path.abspath(__file__)))
sys.path.insert(0, os.path.join(VERIF, "runner"))
from props import PROPS

TEXT = {
 "C01": "fault-free configuration of the storage world: seeded datasets x writers x open modes x expression trees against the reference index; evidence, not proof",
 "C02": "as C01 with group-by lists; exact tuple/count/order comparison with the reference",
 "C03": "seeded query histories against caches of every capacity class, a cache that forgets on a seeded coin and an auditing cache in the Cache seam (one key must always come with one bitmap); every query re-asked at the end; file SHA and stray-write monitor",
 "C04": "seeded schedules (statement-level pre-emption, rand-p and PCT) of 2..16 tasks on one index / one LRUCache / the gRPC handler, with the race detector kept informative by hidden hand-offs, results against the reference, LRU histories checked with porcupine",
 "C05": "seeded AddRow sequences x three writer paths x open/close/close-again/reopen histories; ids, schema, row universe and per-value membership against the reference",
 "C06": "exhaustive enumeration of crash points at commit granularity per generated dataset and writer on the simulated disk, plus sampled sub-commit images (applied/lost/torn writes, torn meta), injected write errors and SIGKILL of the real binary under strace; recovery oracle absent | rejected | equivalent",
 "C07": "exhaustive enumeration of all Put/Get histories up to length 5 (6) over a small alphabet for three capacities plus seeded long histories; clause-by-clause oracle with a twin cache for residency; multi-client half under C04",
 "C08": "seeded re-execution histories of one Query value over 1..3 indexes against a fresh equal query and the reference; caller-visible fields snapshotted",
 "C09": "each ParseQuery call inside a synctest bubble: deadlock = not returned at quiescence, leak = goroutine census; accept/reject/tree against an independent recursive-descent RefParser on grammar-derived, mutated and raw inputs",
 "C11": "seeded binding histories through Prepare+Stmt.Query, DB.Query and ReplacePlaceholders; one third under the seeded scheduler with one *sql.Stmt shared by tasks; rows against the literal one-shot query",
 "C12": "fault-free configuration of the handle world: DSN options x query texts x bound arguments; columns, types and rows against the reference",
 "C13": "batches through the in-process handler (stub transport, both directions marshalled) and, for a third of the cases, the real server child and the grpc:// driver vs the file: DSN",
 "C14": "hostile wire messages (systematic structural omissions at every tree position, inside batches, with group-by, deep nesting, random fields) against the real server child, probes in between; verdicts: died (exit awaited), stuck (CPU quiescence), probe wrong",
 "C15": "exhaustive enumeration of all damage subsets of size <= 2 and the special files, plus seeded larger subsets, each with an open/close/reopen history under the fake-clock hang watchdog and a non-blocking flock probe after every failure and Close",
 "C16": "pre-existing outputs x writers (library and real binary): must fail, content/size/mode unchanged; read histories with SHA and zero writes at the disk proxy",
 "C17": "seeded handle histories in phases: sequential stretches (open, query, close, pool settings, clock jumps, file missing at first use) and concurrent phases of 2..16 tasks under the seeded scheduler inside a synctest bubble; hang = 10 simulated minutes blocked; flock probe after every phase",
 "C18": "seeded schedules of 2..32 tasks adding uniquely tagged rows to either writer (totals on both sides of 1000), race detector informative, ids linearizable as a counter, flushed index against the reference in id order",
 "C19": "the real `updog create` binary on generated CSVs in both modes, with malformed variants and pre-existing outputs; schema, membership and record-as-row probes against the reference; never-exits judged by CPU quiescence",
}

def main():
    checks = []
    for pid in sorted(PROPS):
        c = PROPS[pid]
        note = "trusted: the reference models (harness/model.go, RefParser), the Go race detector and testing/synctest, bbolt/roaring/database/sql as dependencies; a clean batch is evidence, not proof"
        if c.get("assumptions"):
            note += "; " + "; ".join(c["assumptions"])
        checks.append({
            "property_id": pid,
            "quick_cmd": "bin/check %s --tier quick" % pid,
            "thorough_cmd": "bin/check %s --tier thorough" % pid,
            "evidence_file": "evidence/%s.json" % pid,
            "replay_cmd_template": "bin/check --replay {path}",
            "engine": "simrt",
            "level_claimed": {"category": c["level"], "text": TEXT[pid], "design_ref": "DESIGN.md section 3 (%s), sections 8-10" % pid},
            "level_note": note,
            "technique": "deterministic simulation with fault injection",
        })
    m = {
        "version": 1,
        "setup_cmd": "bin/setup",
        "hooks": {
            "guard": "none in /repo: instrumentation (yields, lock hooks, bbolt.Open wrapper, deterministic map iteration, importable CLI twin with the service constructor lifted from the program's own registration call; lock hooks also in a copy of the pinned bbolt module) is applied by /verif/instrument to a scratch copy of the current working tree",
            "enable": "bin/check copies /repo's working tree to a scratch directory, rewrites the copy, overlays the harness and builds it with go1.26.8 -race; the real `updog` binary is built from the pristine copy",
            "baseline_off_cmd": "cd /repo && GOFLAGS=-mod=mod go test -vet=off -count=1 ./...",
            "source_commits": [],
            "add_only": True,
        },
        "engines": [{"name": "simrt", "path": "simrt/", "serves_properties": sorted(PROPS),
                     "kind_free_text": "seeded scheduler with statement-level pre-emption + fake clock (testing/synctest) + TSan-in-simulation + recording/injecting disk proxy over bbolt's write seam; source instrumentation by instrument/; process tiers drive real binaries sequentially"}],
        "checks": checks,
        "not_applicable": [{"property_id": "C10", "reason": "format->parse round trip is a pure in-memory function of the query tree: no shared state, I/O, clock, schedule, fault or history for a simulator to control"}],
        "notes": "18 of 19 properties claimed. /repo carries no hooks, only fix: commits for the genuine defects the checks found (known_findings.txt). bin/selftest {mutants,determinism,syncmodel} are the machinery's own checks.",
    }
    json.dump(m, open(os.path.join(VERIF, "MANIFEST.json"), "w"), indent=1)

if __name__ == "__main__":
    main()
