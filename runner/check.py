#!/usr/bin/env python3
"""Runner: scratch copy -> instrument -> build -> seeded batch on 16 workers -> shrink ->
fresh-process confirmation -> known findings -> evidence.

Exit 0: property held on everything explored (known findings are printed, not failed).
Exit 1: + line `VIOLATION property=<id> replay=<path>` for a confirmed, unlisted violation.
Exit 2: build / instrumentation / watchdog / determinism trouble (never a VIOLATION line).
"""
import argparse, concurrent.futures, copy, fcntl, glob, hashlib, json, os, re, shutil, subprocess, sys, tempfile, time, zlib

VERIF = os.path.dirname(os.path.dirname(os.path.abspath(__file__)))
REPO = os.environ.get("VERIF_REPO", "/repo")
BUILD = os.path.join(VERIF, ".build")
OUT = os.environ.get("VERIF_OUT", VERIF)  # where evidence/ and replays/ go (self-tests redirect it)
GO = "go1.26.8"
NCPU = int(os.environ.get("VERIF_WORKERS", "16"))

ENV = dict(os.environ)
ENV.update({"GOFLAGS": "-mod=mod", "GOPROXY": "off", "GOSUMDB": "off", "GOTOOLCHAIN": "local",
            "CGO_ENABLED": "1"})
ENV["PATH"] = "/usr/local/bin:/opt/veriftools/go1.26.8/bin:" + ENV.get("PATH", "")

sys.path.insert(0, os.path.dirname(os.path.abspath(__file__)))
from props import PROPS  # noqa: E402


def log(*a):
    print(*a, file=sys.stderr, flush=True)


def die2(msg):
    print("HARNESS-TROUBLE: " + msg, flush=True)
    sys.exit(2)


def scratch_base():
    base = os.environ.get("VERIF_SCRATCH") or "/var/tmp"
    os.makedirs(base, exist_ok=True)
    return base


# ----------------------------------------------------------------------------- build

def tree_hash():
    h = hashlib.sha256()
    roots = [(REPO, lambda p: "/.git/" not in p + "/" and not p.endswith(".test")),
             (os.path.join(VERIF, "harness"), None), (os.path.join(VERIF, "simrt"), None),
             (os.path.join(VERIF, "instrument"), None)]
    for root, flt in roots:
        files = []
        for d, dirs, fs in os.walk(root):
            dirs[:] = sorted(x for x in dirs if x != ".git")
            for f in sorted(fs):
                files.append(os.path.join(d, f))
        for p in files:
            if flt and not flt(p):
                continue
            try:
                with open(p, "rb") as fh:
                    data = fh.read()
            except OSError:
                continue
            h.update(os.path.relpath(p, root).encode() + b"\0" + str(len(data)).encode() + b"\0")
            h.update(data)
    return h.hexdigest()[:24]


def run(cmd, cwd=None, timeout=1800, check=True, env=None):
    p = subprocess.run(cmd, cwd=cwd, env=env or ENV, stdout=subprocess.PIPE, stderr=subprocess.STDOUT, text=True, timeout=timeout)
    if check and p.returncode != 0:
        raise RuntimeError("command failed: %s\n%s" % (" ".join(cmd), p.stdout[-6000:]))
    return p.stdout


def build_instrumenter():
    os.makedirs(BUILD, exist_ok=True)
    out = os.path.join(BUILD, "instrument")
    src = os.path.join(VERIF, "instrument")
    newest = max(os.path.getmtime(os.path.join(src, f)) for f in os.listdir(src))
    if not os.path.exists(out) or os.path.getmtime(out) < newest:
        run([GO, "build", "-o", out, "."], cwd=src)
    return out


def prepare(selfcheck=False):
    """Returns the directory holding worker.test, updog and sites.json for the current tree. A tree (repository,
    harness, runtime) that changes while it is being built is built again: nothing is cached under a key it does
    not match, and a build that failed on a moving tree is no verdict about anything."""
    last = None
    for attempt in range(4):
        key0 = tree_hash()
        try:
            dst = prepare_once(selfcheck)
        except RuntimeError as e:
            if tree_hash() != key0 or getattr(e, "moved", False):
                last = e
                log("prepare: the tree changed during the build, building again")
                time.sleep(2)
                continue
            raise
        return dst
    raise last


class TreeMoved(RuntimeError):
    moved = True


def prepare_once(selfcheck=False):
    os.makedirs(os.path.join(BUILD, "cache"), exist_ok=True)
    lock = open(os.path.join(BUILD, "lock"), "w")
    fcntl.flock(lock, fcntl.LOCK_EX)
    try:
        key = tree_hash()
        dst = os.path.join(BUILD, "cache", key)
        if os.path.exists(os.path.join(dst, "ok")) and not selfcheck:
            os.utime(dst)
            return dst
        t0 = time.time()
        inst = build_instrumenter()
        sc = tempfile.mkdtemp(prefix="verif-scratch-", dir=scratch_base())
        try:
            run(["rsync", "-a", "--exclude", ".git", REPO + "/", sc + "/"])
            tmpdst = dst + ".tmp"
            shutil.rmtree(tmpdst, ignore_errors=True)
            os.makedirs(tmpdst)
            # the real binary comes from the pristine copy
            run([GO, "build", "-o", os.path.join(tmpdst, "updog"), "./cmd/updog"], cwd=sc)
            run([GO, "mod", "edit", "-require", "verif/simrt@v0.0.0", "-replace", "verif/simrt=" + os.path.join(VERIF, "simrt"),
                 "-require", "github.com/anishathalye/porcupine@v1.3.0"], cwd=sc)
            # bbolt's own locks are made to cooperate with the scheduler, too (locks only, no yields): a copy of
            # the module the repository pins, below the scratch tree
            bdir_ = run([GO, "list", "-m", "-f", "{{.Dir}}", "go.etcd.io/bbolt"], cwd=sc).strip().splitlines()[-1]
            dep = os.path.join(sc, "_deps", "bbolt")
            os.makedirs(os.path.dirname(dep), exist_ok=True)
            run(["rsync", "-a", "--chmod=u+w", bdir_ + "/", dep + "/"])
            run([GO, "mod", "edit", "-replace", "go.etcd.io/bbolt=./_deps/bbolt"], cwd=sc)
            out = run([inst, "-root", sc, "-sites", os.path.join(tmpdst, "sites.json"), "-deps", "go.etcd.io/bbolt"], cwd=sc)
            log(out.strip())
            if selfcheck:
                # the repository's own tests must pass on the instrumented copy with the simulator inactive
                # (the repository's tests leave their temporary directories behind: keep them inside the scratch tree)
                os.makedirs(os.path.join(sc, "_tmp"), exist_ok=True)
                o = run([GO, "test", "-count=1", "./..."], cwd=sc, check=False, env=dict(ENV, TMPDIR=os.path.join(sc, "_tmp")))
                log(o[-3000:])
                if "FAIL" in o:
                    raise RuntimeError("repository tests fail on the instrumented copy")
            # the instrumented twin of the CLI (simulator inactive): used where a child process has to
            # be killed at an exactly repeatable write
            run([GO, "build", "-o", os.path.join(tmpdst, "updog-sim"), "./cmd/updog"], cwd=sc)
            os.makedirs(os.path.join(sc, "verifsim"), exist_ok=True)
            for f in glob.glob(os.path.join(VERIF, "harness", "*.go")):
                shutil.copy(f, os.path.join(sc, "verifsim"))
            os.makedirs(os.path.join(sc, "verifcli"), exist_ok=True)
            for f in glob.glob(os.path.join(VERIF, "harness", "shim", "*.go")):
                shutil.copy(f, os.path.join(sc, "verifcli"))
            run([GO, "test", "-race", "-c", "-o", os.path.join(tmpdst, "worker.test"), "./verifsim"], cwd=sc)
            if tree_hash() != key:
                shutil.rmtree(tmpdst, ignore_errors=True)
                raise TreeMoved("tree changed during the build")
            open(os.path.join(tmpdst, "ok"), "w").write(str(time.time()))
            shutil.rmtree(dst, ignore_errors=True)
            os.rename(tmpdst, dst)
        finally:
            shutil.rmtree(sc, ignore_errors=True)
        # keep the eight most recent builds (several trees may be under test at once: selftest mutants)
        ents = sorted(glob.glob(os.path.join(BUILD, "cache", "*")), key=os.path.getmtime, reverse=True)
        for e in ents[8:]:
            if time.time() - os.path.getmtime(e) < 3600:
                continue  # possibly in use by a batch that is still running
            shutil.rmtree(e, ignore_errors=True)
        log("prepare: built %s in %.1fs" % (key, time.time() - t0))
        return dst
    finally:
        fcntl.flock(lock, fcntl.LOCK_UN)
        lock.close()


# ----------------------------------------------------------------------------- workers

def worker_cmd(bdir):
    return [os.path.join(bdir, "worker.test"), "-test.run", "^TestWorker$", "-test.timeout", "0", "-test.count", "1"]


def worker_env(bdir, args, outdir):
    e = dict(ENV)
    e["VERIFSIM_ARGS"] = json.dumps(args)
    # history_size: with the default (1) the detector forgets the earlier access of a pair in runs of millions
    # of statements and then drops the report: the same race was reported in a warm worker and not in a fresh
    # process (seeded change C18-10C)
    e["GORACE"] = "log_path=%s halt_on_error=0 atexit_sleep_ms=0 history_size=5" % args["racelog"]
    if os.environ.get("VERIF_GORACE_EXTRA"):
        e["GORACE"] += " " + os.environ["VERIF_GORACE_EXTRA"]
    e["VERIF_UPDOG_BIN"] = os.path.join(bdir, "updog")
    e["VERIF_UPDOG_SIM_BIN"] = os.path.join(bdir, "updog-sim")
    e["VERIF_SITES"] = os.path.join(bdir, "sites.json")
    e["TMPDIR"] = outdir
    e["GOMAXPROCS"] = os.environ.get("VERIF_GOMAXPROCS", "4")
    return e


def run_batch(bdir, prop, tier, seed, count, wallcap, outdir, nworkers):
    procs = {}
    t0 = time.time()
    known_sigs = [k["sig"] for k in load_known() if k["property"] == prop]

    def launch(w, start):
        args = {"mode": "gen", "property": prop, "tier": tier, "base": seed, "start": start, "stride": nworkers,
                "count": count, "worker": w, "outdir": outdir, "wallcap_s": max(1, int(wallcap - (time.time() - t0))),
                "racelog": os.path.join(outdir, "race-%d" % w), "samples": 3 if w == 0 else 0, "known_sigs": known_sigs}
        lf = open(os.path.join(outdir, "worker-%d.log" % w), "ab")
        procs[w] = (subprocess.Popen(worker_cmd(bdir), env=worker_env(bdir, args, outdir), stdout=lf, stderr=subprocess.STDOUT, cwd=outdir), start, lf)

    for w in range(nworkers):
        if w < count:
            launch(w, w)
    trouble = []
    deaths = []
    nviol = 0
    while procs:
        time.sleep(0.05)
        for w in list(procs):
            p, start, lf = procs[w]
            rc = p.poll()
            if rc is None:
                continue
            lf.close()
            del procs[w]
            stats = None
            sf = os.path.join(outdir, "stats-%d-%d.json" % (w, start))
            if os.path.exists(sf):
                stats = json.load(open(sf))
            if rc == 0 and stats:
                continue
            if rc == 3 and stats:
                nviol = len(glob.glob(os.path.join(outdir, "viol-*.json")))
                if stats["ended"] == "fatal-verdict" and nviol < 6 and stats["next"] < count:
                    launch(w, stats["next"])
                continue
            # harness trouble, or the process died (runtime fatal error / crash of the code under test)
            prog = ""
            try:
                prog = open(os.path.join(outdir, "progress-%d.txt" % w)).read()
            except OSError:
                pass
            tail = open(os.path.join(outdir, "worker-%d.log" % w), "rb").read()[-4000:].decode("utf8", "replace")
            if rc == 12 or prog.startswith("WALL-WATCHDOG"):
                detail = ""
                for hf in sorted(glob.glob(os.path.join(outdir, "harness-*.json")))[:2]:
                    try:
                        hv = json.load(open(hf))
                        detail += "\n  harness verdict (%s): %s" % (os.path.basename(hf), (hv["verdict"].get("detail") or "")[:1500])
                    except Exception:
                        pass
                trouble.append("worker %d exit %d: %s\n%s%s" % (w, rc, prog[:3000], tail, detail))
                continue
            m = re.match(r"run (\d+) seed (\d+)", prog)
            if "synctest channel" in tail or "outside bubble" in tail:
                trouble.append("worker %d: testing/synctest refused a cross-bubble operation (harness use of an object outside the bubble it was created in):\n%s" % (w, tail))
            elif m:
                deaths.append({"index": int(m.group(1)), "seed": int(m.group(2)), "rc": rc, "tail": tail})
                nxt = int(m.group(1)) + nworkers
                if len(deaths) < 4 and nxt < count:
                    launch(w, nxt)
            else:
                trouble.append("worker %d died (exit %d) without progress: %s" % (w, rc, tail))
    return trouble, deaths


def run_case(bdir, case, outdir, tag, runwall=180):
    """Runs one case in a fresh process; returns verdict dict (class may be 'death')."""
    os.makedirs(outdir, exist_ok=True)
    cf = os.path.join(outdir, "case-%s.json" % tag)
    json.dump(case, open(cf, "w"))
    wid = zlib.crc32(tag.encode()) % 1000000
    args = {"mode": "case", "casefile": cf, "outdir": outdir, "worker": wid, "runwall_s": runwall,
            "racelog": os.path.join(outdir, "race-%s" % tag)}
    vf = os.path.join(outdir, "verdict-%d.json" % wid)
    if os.path.exists(vf):
        os.remove(vf)
    try:
        p = subprocess.run(worker_cmd(bdir), env=worker_env(bdir, args, outdir), stdout=subprocess.PIPE, stderr=subprocess.STDOUT, cwd=outdir, timeout=runwall + 60)
        rc, out = p.returncode, p.stdout.decode("utf8", "replace")
    except subprocess.TimeoutExpired:
        return {"class": "harness", "detail": "case run timed out"}
    if os.path.exists(vf):
        v = json.load(open(vf))
        os.remove(vf)
        return v
    prog = ""
    try:
        prog = open(os.path.join(outdir, "progress-%d.txt" % wid)).read()
    except OSError:
        pass
    if rc == 12 or prog.startswith("WALL-WATCHDOG") or "synctest channel" in out or "outside bubble" in out or "synctest:" in out:
        # a fatal error of testing/synctest is about how the harness uses objects across bubbles, never about the code under test
        return {"class": "harness", "detail": "exit %d %s %s" % (rc, prog[:2000], out[-2000:])}
    m = re.search(r"^(panic: |fatal error: |unexpected fault address|SIG[A-Z]+: |signal )", out, re.M)
    if m and len(out) > 3000:
        out = out[m.start():m.start() + 2500] + "\n[...]\n" + out[-1200:]
    if not death_in_code_under_test(out):
        # the goroutine that brought the process down has no frame of the code under test: the harness's own bug
        return {"class": "harness", "detail": "worker died (exit %d) in harness code:\n%s" % (rc, out[-3000:])}
    return {"class": "violation", "sig": "process-death", "detail": "the worker process died (exit %d) while running this case:\n%s" % (rc, out[-3000:])}


UNDER_TEST = re.compile(r"^(github\.com/akrennmair/updog(/driver|/internal/[a-z]+|/cmd/[a-z]+|/verifcli)?\.|go\.etcd\.io/bbolt\.)", re.M)


def death_in_code_under_test(out):
    """True unless the output shows a Go panic / fatal error whose first goroutine block (the one that died) has
    no frame of the code under test. Deaths without a Go trace (signals, OOM) stay attributed to the case."""
    m = re.search(r"^(panic: |fatal error: |unexpected fault address)", out, re.M)
    if not m:
        return True
    rest = out[m.start():]
    g = re.search(r"^goroutine \d+ .*?(?=^\s*$)", rest, re.M | re.S)
    if not g:
        return True
    return bool(UNDER_TEST.search(g.group(0)))


# ----------------------------------------------------------------------------- shrinking

SHRINK_INTS = {"n", "card", "size", "trailing_empty", "empty_row_pm", "missing", "depth", "count", "repeat", "cap", "lru_bytes", "cache_bytes", "lossy"}


def paths(node, prefix=()):
    """Yields (path, value) for every list / dict / scalar in a JSON tree."""
    yield prefix, node
    if isinstance(node, dict):
        for k in sorted(node):
            yield from paths(node[k], prefix + (k,))
    elif isinstance(node, list):
        for i, x in enumerate(node):
            yield from paths(x, prefix + (i,))


def get(node, path):
    for k in path:
        node = node[k]
    return node


def put(root, path, val):
    if not path:
        return val
    node = root
    for k in path[:-1]:
        node = node[k]
    node[path[-1]] = val
    return root


def candidates(case):
    """Generates smaller variants of a case, most aggressive first."""
    root = {"body": case["body"], "sched": case.get("sched")}
    lists = [(p, v) for p, v in paths(root) if isinstance(v, list) and len(v) > 0]
    lists.sort(key=lambda pv: -len(pv[1]))
    # chunk removal on every list
    for frac in (2, 4, 8):
        for p, v in lists:
            n = len(v)
            if n < frac:
                continue
            size = max(1, n // frac)
            for start in range(0, n, size):
                c = copy.deepcopy(root)
                put(c, p, v[:start] + v[start + size:])
                yield c
    for p, v in lists:
        if len(v) <= 24:
            for i in range(len(v)):
                c = copy.deepcopy(root)
                put(c, p, v[:i] + v[i + 1:])
                yield c
    # hoist a child expression over its parent
    for p, v in paths(root):
        if isinstance(v, dict) and isinstance(v.get("kids"), list) and p:
            for k in v["kids"]:
                if isinstance(k, dict) and "op" in k:
                    c = copy.deepcopy(root)
                    put(c, p, copy.deepcopy(k))
                    yield c
    # smaller integers
    for p, v in paths(root):
        if p and isinstance(v, int) and not isinstance(v, bool) and p[-1] in SHRINK_INTS and v > 0:
            for nv in sorted({0, 1, v // 2, v - 1}):
                if 0 <= nv < v:
                    c = copy.deepcopy(root)
                    put(c, p, nv)
                    yield c
    # simpler strings
    for p, v in paths(root):
        if p and isinstance(v, str) and len(v) > 1 and (p[-1] in ("val", "text", "input", "query") or "inputs" in p or "args" in p) and not v.startswith("\u0000hex:"):
            for nv in (v[:len(v) // 2], v[len(v) // 2:], v[1:], v[:-1]):
                c = copy.deepcopy(root)
                put(c, p, nv)
                yield c


def case_size(case):
    return len(json.dumps({"b": case["body"], "s": case.get("sched")}))


def shrink(bdir, case, sig, outdir, budget):
    t0 = time.time()
    best = case
    tested = 0
    improved = True
    pool = concurrent.futures.ThreadPoolExecutor(max_workers=NCPU)
    try:
        while improved and time.time() - t0 < budget:
            improved = False
            gen = candidates(best)
            while time.time() - t0 < budget:
                batch = []
                for c in gen:
                    cand = dict(best)
                    cand["body"] = c["body"]
                    if c.get("sched") is not None:
                        cand["sched"] = c["sched"]
                    if case_size(cand) < case_size(best):
                        batch.append(cand)
                    if len(batch) >= NCPU:
                        break
                if not batch:
                    break
                futs = [pool.submit(run_case, bdir, cand, outdir, "s%d" % i, 60) for i, cand in enumerate(batch)]
                res = [f.result() for f in futs]
                tested += len(batch)
                hit = None
                for cand, v in zip(batch, res):
                    if v.get("class") == "violation" and v.get("sig") == sig:
                        if hit is None or case_size(cand) < case_size(hit):
                            hit = cand
                if hit is not None:
                    best = hit
                    improved = True
                    break
    finally:
        pool.shutdown(wait=True)
    return best, tested


# ----------------------------------------------------------------------------- known findings

def load_known():
    out = []
    p = os.path.join(VERIF, "known_findings.txt")
    if not os.path.exists(p):
        return out
    for line in open(p):
        line = line.strip()
        m = re.match(r"finding:\s+property=(\S+)\s+sig=(\S+)\s+(.*)", line)
        if m:
            out.append({"property": m.group(1), "sig": m.group(2), "text": m.group(3)})
    return out


# ----------------------------------------------------------------------------- main

def main():
    ap = argparse.ArgumentParser()
    ap.add_argument("prop", nargs="?")
    ap.add_argument("--tier", default=os.environ.get("VERIF_TIER", "quick"))
    ap.add_argument("--replay")
    ap.add_argument("--count", type=int)
    ap.add_argument("--keep", action="store_true")
    ap.add_argument("--no-shrink", action="store_true")
    ap.add_argument("--selfcheck", action="store_true", help="also run the repository tests on the instrumented copy")
    a = ap.parse_args()
    seed = int(os.environ.get("VERIF_SEED", "20260926"))
    t0 = time.time()
    try:
        bdir = prepare(selfcheck=a.selfcheck)
    except Exception as e:  # build trouble is never a violation
        die2("build failed: %s" % e)
    if a.selfcheck and not a.prop:
        print("selfcheck ok")
        return 0

    outdir = tempfile.mkdtemp(prefix="verif-run-", dir=scratch_base())
    try:
        if a.replay:
            case = json.load(open(a.replay))
            want = case.get("expect_sig")
            v = run_case(bdir, case, outdir, "replay")
            tries = 1
            while want == "race" and tries < 5 and v.get("class") != "violation":
                v = run_case(bdir, case, outdir, "replay%d" % tries)  # see the note on race verdicts in main()
                tries += 1
            txt = json.dumps(v, indent=1)
            print(txt if len(txt) <= 9000 else txt[:6000] + "\n …[%d bytes]…\n" % (len(txt) - 9000) + txt[-3000:])
            if v.get("class") == "violation":
                print("VIOLATION property=%s replay=%s" % (case["property"], os.path.abspath(a.replay)))
                if want and v.get("sig") != want:
                    print("note: signature %s differs from the recorded %s" % (v.get("sig"), want))
                return 1
            if v.get("class") == "harness":
                die2(v.get("detail", ""))
            return 0

        prop = a.prop
        cfg = PROPS[prop]
        tcfg = cfg[a.tier]
        count = a.count or int(os.environ.get("VERIF_COUNT", tcfg["count"]))
        wallcap = int(os.environ.get("VERIF_BUDGET_S", tcfg["wall"]))
        nworkers = min(NCPU, tcfg.get("workers", NCPU))
        print("check %s tier=%s VERIF_SEED=%d runs=%d workers=%d" % (prop, a.tier, seed, count, nworkers), flush=True)
        trouble, deaths = run_batch(bdir, prop, a.tier, seed, count, wallcap, outdir, nworkers)
        if trouble:
            for tmsg in trouble:
                print(tmsg)
            die2("worker trouble (see above)")

        # aggregate stats
        agg = {"runs": 0, "nontrivial": set(), "states": set(), "ils": set(), "counters": {}, "samples": [], "sim_ns": 0, "ended": {}}
        for sf in glob.glob(os.path.join(outdir, "stats-*.json")):
            s = json.load(open(sf))
            agg["runs"] += s["runs"]
            agg["nontrivial"].update(s.get("nontrivial") or [])
            agg["states"].update(s.get("states") or [])
            agg["ils"].update(s.get("ils") or [])
            agg["sim_ns"] += s.get("sim_ns", 0)
            agg["ended"][s["ended"]] = agg["ended"].get(s["ended"], 0) + 1
            for k, n in (s.get("counters") or {}).items():
                agg["counters"][k] = agg["counters"].get(k, 0) + n
            agg["samples"].extend(s.get("samples") or [])

        # violations: group by signature
        found = {}
        for vf in sorted(glob.glob(os.path.join(outdir, "viol-*.json")), key=lambda p: int(re.findall(r"viol-(\d+)", p)[0])):
            d = json.load(open(vf))
            found.setdefault(d["verdict"]["sig"], []).append(d)
        for dth in deaths:
            # re-run the case alone in a fresh process; if it dies again it is a violation
            case = {"property": prop, "tier": a.tier, "seed": dth["seed"], "index": dth["index"], "body": None}
            v = run_case(bdir, case, outdir, "death%d" % dth["index"])
            if v.get("class") == "violation" and v.get("sig") == "process-death":
                found.setdefault("process-death", []).append({"case": case, "verdict": v})
            elif v.get("class") == "violation":
                found.setdefault(v["sig"], []).append({"case": case, "verdict": v})
            else:
                die2("worker died at run %d (exit %s) but the case does not die when run alone:\n%s" % (dth["index"], dth["rc"], dth["tail"]))

        known = load_known()
        rc = 0
        reported = []
        shrink_budget = tcfg.get("shrink_s", 60)
        os.makedirs(os.path.join(OUT, "replays", prop), exist_ok=True)
        for sig in sorted(found)[:4]:
            d = found[sig][0]
            case = d["case"]
            # generated cases carry no body when they come from a death; materialise by running once
            confirm = run_case(bdir, case, outdir, "confirm0")
            tries = 1
            # A race verdict can depend on happens-before edges that uninstrumented dependency code
            # (database/sql's pool mutexes) creates while a task woken outside the scheduler's control
            # runs up to its first statement; such a case is replayed up to five times.
            while sig == "race" and tries < 5 and not (confirm.get("class") == "violation" and confirm.get("sig") == sig):
                confirm = run_case(bdir, case, outdir, "confirm0r%d" % tries)
                tries += 1
            if not (confirm.get("class") == "violation" and confirm.get("sig") == sig):
                print("first replay of run %s: %s" % (case.get("index"), json.dumps(confirm)[:3000]))
                die2("violation %s of run %s (seed %s) did not reproduce in a fresh process: determinism defect of the harness" % (sig, case.get("index"), case.get("seed")))
            ntested = 0
            if case.get("body") is not None and not a.no_shrink:
                case, ntested = shrink(bdir, case, sig, outdir, shrink_budget)
            final = run_case(bdir, case, outdir, "confirm1")
            tries = 1
            while sig == "race" and tries < 5 and not (final.get("class") == "violation" and final.get("sig") == sig):
                final = run_case(bdir, case, outdir, "confirm1r%d" % tries)
                tries += 1
            if not (final.get("class") == "violation" and final.get("sig") == sig):
                die2("minimised case for %s did not reproduce in a fresh process" % sig)
            case["expect_sig"] = sig
            case["note"] = (final.get("detail") or "")[:1500]
            kf = [k for k in known if k["property"] == prop and k["sig"] == sig]
            rp = os.path.join(OUT, "replays", prop, "%s-%d.json" % (re.sub(r"[^A-Za-z0-9_.-]", "_", sig), case["seed"]))
            json.dump(case, open(rp, "w"), indent=1)
            if kf:
                print("KNOWN-FINDING: property=%s sig=%s %s (replay=%s)" % (prop, sig, kf[0]["text"], rp))
            else:
                print("violation: sig=%s occurrences=%d shrink_candidates=%d" % (sig, len(found[sig]), ntested))
                print((final.get("detail") or "")[:3000])
                print("VIOLATION property=%s replay=%s" % (prop, rp))
                rc = 1
            reported.append({"sig": sig, "occurrences": len(found[sig]), "replay": rp, "known": bool(kf)})

        wall = time.time() - t0
        nt = len(agg["nontrivial"])
        ev = {
            "property_id": prop, "tier": a.tier, "seed": seed, "level": cfg["level"], "wall_s": round(wall, 2),
            "violations": sum(1 for r in reported if not r["known"]),
            "coverage": {
                "evaluations": agg["runs"], "distinct_nontrivial": nt, "rule": cfg["rule"],
                "samples": [json.loads(s) if isinstance(s, str) else s for s in agg["samples"][:3]],
                "exhaustive": False,
                "simulated_runs": agg["runs"], "runs_per_hour": int(agg["runs"] / max(wall, 1e-9) * 3600),
                "simulated_time_s": round(agg["sim_ns"] / 1e9, 3),
                "distinct_interleavings": len(agg["ils"]), "distinct_states": len(agg["states"]),
                "interleaving_measure": "distinct hashes of the context-switch sequence (from-task, to-task, yield counter of the resumed task)",
                "state_measure": "distinct hashes of (configuration class, workload shape, outcome class)",
                "counters": agg["counters"], "worker_endings": agg["ended"],
                "real_vs_stub": cfg.get("real_vs_stub", {}), "findings": reported,
            },
            "assumptions": cfg.get("assumptions", []),
        }
        ev["coverage"].update(cfg.get("coverage_extra", {}))
        os.makedirs(os.path.join(OUT, "evidence"), exist_ok=True)
        json.dump(ev, open(os.path.join(OUT, "evidence", prop + ".json"), "w"), indent=1)
        print("done %s: runs=%d distinct_nontrivial=%d interleavings=%d wall=%.1fs rc=%d" % (prop, agg["runs"], nt, len(agg["ils"]), wall, rc))
        if agg["runs"] == 0:
            die2("no runs executed")
        return rc
    finally:
        if not a.keep:
            shutil.rmtree(outdir, ignore_errors=True)
        else:
            log("kept " + outdir)


if __name__ == "__main__":
    try:
        rc = main()
    except SystemExit:
        raise
    except KeyboardInterrupt:
        rc = 2
    except BaseException:
        # trouble of the runner itself is never a verdict about the code under test
        import traceback
        traceback.print_exc()
        print("HARNESS-TROUBLE: runner failed with an exception")
        rc = 2
    sys.exit(rc)
