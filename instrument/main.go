// instrument rewrites a scratch copy of the code under test so that the simulator owns its
// nondeterminism. The rewrites are generic (they key on syntax and types, never on the
// identifiers of the code under test):
//
//	R1  X.Lock()/Unlock()/RLock()/RUnlock() on sync.Mutex/RWMutex -> simrt.Lock(X.TryLock, X.Lock) ...
//	R2  simrt.Yield(site) before every statement of every function body
//	R3  bbolt.Open(...) -> simrt.BoltOpened(bbolt.Open(...))
//	R4  package main under cmd/ is additionally emitted as an importable package (verifcli)
//	R5  for k, v := range <map with ordered keys> -> iteration over simrt.Keys(m)
//
// usage: instrument -root <dir> [-sites <file>]
package main

import (
	"bytes"
	"encoding/json"
	"flag"
	"fmt"
	"go/ast"
	"go/format"
	"go/token"
	"go/types"
	"os"
	"path/filepath"
	"strconv"
	"strings"

	"golang.org/x/tools/go/packages"
)

type siteInfo struct {
	ID   int    `json:"id"`
	File string `json:"file"`
	Line int    `json:"line"`
}

var (
	sites   []siteInfo
	notes   []string
	counts  = map[string]int{}
	rootDir string
	fresh   int
	noYield = map[ast.Stmt]bool{}
	fsetG   *token.FileSet
	curFile string
)

func sel(x, name string) *ast.SelectorExpr {
	if locksOnly && x == "simrt" {
		x = "simhook"
	}
	return &ast.SelectorExpr{X: ast.NewIdent(x), Sel: ast.NewIdent(name)}
}

func yieldStmt(pos token.Pos) ast.Stmt {
	id := len(sites) + 1
	p := fsetG.Position(pos)
	rel, _ := filepath.Rel(rootDir, p.Filename)
	sites = append(sites, siteInfo{ID: id, File: rel, Line: p.Line})
	return &ast.ExprStmt{X: &ast.CallExpr{
		Fun:  sel("simrt", "Yield"),
		Args: []ast.Expr{&ast.BasicLit{Kind: token.INT, Value: strconv.Itoa(id)}},
	}}
}

// pureArg: evaluating it later (in the child) gives the same value as at the go statement.
func pureArg(e ast.Expr) bool {
	switch e.(type) {
	case *ast.BasicLit, *ast.FuncLit:
		return true
	case *ast.CompositeLit:
		return false
	}
	return pure(e)
}

// R6: `go f(args)` -> simrt.Go(func() { f(args) }) when function and arguments are pure.
func rewriteGo(g *ast.GoStmt) ast.Stmt {
	fun := g.Call.Fun
	if _, isLit := fun.(*ast.FuncLit); !isLit && !pure(fun) {
		notes = append(notes, fmt.Sprintf("%s: go statement left alone (callee not pure)", fsetG.Position(g.Pos())))
		return g
	}
	for _, a := range g.Call.Args {
		if !pureArg(a) {
			notes = append(notes, fmt.Sprintf("%s: go statement left alone (argument not pure)", fsetG.Position(g.Pos())))
			return g
		}
	}
	counts["R6_go"]++
	return &ast.ExprStmt{X: &ast.CallExpr{
		Fun: sel("simrt", "Go"),
		Args: []ast.Expr{&ast.FuncLit{
			Type: &ast.FuncType{Params: &ast.FieldList{}},
			Body: &ast.BlockStmt{List: []ast.Stmt{&ast.ExprStmt{X: g.Call}}},
		}},
	}}
}

func withYields(list []ast.Stmt) []ast.Stmt {
	out := make([]ast.Stmt, 0, 2*len(list))
	for _, s := range list {
		if !noYield[s] {
			out = append(out, yieldStmt(s.Pos()))
		}
		if g, ok := s.(*ast.GoStmt); ok {
			s = rewriteGo(g)
		}
		out = append(out, s)
	}
	return out
}

// pure reports whether evaluating e twice is harmless (identifiers, field selections,
// dereferences, parentheses).
func pure(e ast.Expr) bool {
	switch v := e.(type) {
	case *ast.Ident:
		return true
	case *ast.SelectorExpr:
		return pure(v.X)
	case *ast.StarExpr:
		return pure(v.X)
	case *ast.ParenExpr:
		return pure(v.X)
	case *ast.UnaryExpr:
		return v.Op == token.AND && pure(v.X)
	}
	return false
}

func isSyncLock(info *types.Info, se *ast.SelectorExpr) (string, bool) {
	s, ok := info.Selections[se]
	if !ok {
		return "", false
	}
	fn, ok := s.Obj().(*types.Func)
	if !ok || fn.Pkg() == nil || fn.Pkg().Path() != "sync" {
		return "", false
	}
	sig := fn.Type().(*types.Signature)
	if sig.Recv() == nil {
		return "", false
	}
	rt := sig.Recv().Type()
	if p, ok := rt.(*types.Pointer); ok {
		rt = p.Elem()
	}
	named, ok := rt.(*types.Named)
	if !ok {
		return "", false
	}
	if n := named.Obj().Name(); n != "Mutex" && n != "RWMutex" {
		return "", false
	}
	switch fn.Name() {
	case "Lock", "Unlock", "RLock", "RUnlock":
		return fn.Name(), true
	}
	return "", false
}

// isOnceDo reports whether se is the method Do of a sync.Once and whether its receiver expression is a pointer.
func isOnceDo(info *types.Info, se *ast.SelectorExpr) (ok bool, ptr bool) {
	s, found := info.Selections[se]
	if !found || se.Sel.Name != "Do" {
		return false, false
	}
	fn, isFn := s.Obj().(*types.Func)
	if !isFn || fn.Pkg() == nil || fn.Pkg().Path() != "sync" {
		return false, false
	}
	rt := fn.Type().(*types.Signature).Recv().Type()
	if p, isP := rt.(*types.Pointer); isP {
		rt = p.Elem()
	}
	named, isN := rt.(*types.Named)
	if !isN || named.Obj().Name() != "Once" {
		return false, false
	}
	_, ptr = info.TypeOf(se.X).Underlying().(*types.Pointer)
	return true, ptr
}

// isCondMethod reports whether se is Wait, Signal or Broadcast of a sync.Cond.
func isCondMethod(info *types.Info, se *ast.SelectorExpr) (name string, ptr bool, ok bool) {
	s, found := info.Selections[se]
	if !found {
		return "", false, false
	}
	fn, isFn := s.Obj().(*types.Func)
	if !isFn || fn.Pkg() == nil || fn.Pkg().Path() != "sync" {
		return "", false, false
	}
	rt := fn.Type().(*types.Signature).Recv().Type()
	if p, isP := rt.(*types.Pointer); isP {
		rt = p.Elem()
	}
	named, isN := rt.(*types.Named)
	if !isN || named.Obj().Name() != "Cond" {
		return "", false, false
	}
	switch fn.Name() {
	case "Wait", "Signal", "Broadcast":
	default:
		return "", false, false
	}
	_, ptr = info.TypeOf(se.X).Underlying().(*types.Pointer)
	return fn.Name(), ptr, true
}

func rewriteCall(info *types.Info, c *ast.CallExpr) {
	se, ok := c.Fun.(*ast.SelectorExpr)
	if !ok {
		return
	}
	if name, ptr, ok := isCondMethod(info, se); ok && len(c.Args) == 0 && pure(se.X) {
		var key ast.Expr = se.X
		if !ptr {
			key = &ast.UnaryExpr{Op: token.AND, X: se.X}
		}
		c.Fun = sel("simrt", "Cond"+name)
		c.Args = []ast.Expr{key}
		counts["R1_cond"]++
		return
	}
	if once, ptr := isOnceDo(info, se); once && len(c.Args) == 1 {
		if !pure(se.X) {
			notes = append(notes, fmt.Sprintf("%s: sync.Once receiver not pure, left alone", fsetG.Position(c.Pos())))
			return
		}
		var key ast.Expr = se.X
		if !ptr {
			key = &ast.UnaryExpr{Op: token.AND, X: se.X}
		}
		f := c.Args[0]
		c.Fun = sel("simrt", "OnceDo")
		c.Args = []ast.Expr{key, &ast.SelectorExpr{X: se.X, Sel: ast.NewIdent("Do")}, f}
		counts["R1_once"]++
		return
	}
	if name, ok := isSyncLock(info, se); ok && len(c.Args) == 0 {
		if !pure(se.X) {
			notes = append(notes, fmt.Sprintf("%s: lock receiver not pure, left alone", fsetG.Position(c.Pos())))
			return
		}
		x := se.X
		switch name {
		case "Lock":
			c.Fun = sel("simrt", "Lock")
			c.Args = []ast.Expr{&ast.SelectorExpr{X: x, Sel: ast.NewIdent("TryLock")}, &ast.SelectorExpr{X: x, Sel: ast.NewIdent("Lock")}}
		case "RLock":
			c.Fun = sel("simrt", "RLock")
			c.Args = []ast.Expr{&ast.SelectorExpr{X: x, Sel: ast.NewIdent("TryRLock")}, &ast.SelectorExpr{X: x, Sel: ast.NewIdent("RLock")}}
		case "Unlock":
			c.Fun = sel("simrt", "Unlock")
			c.Args = []ast.Expr{&ast.SelectorExpr{X: x, Sel: ast.NewIdent("Unlock")}}
		case "RUnlock":
			c.Fun = sel("simrt", "RUnlock")
			c.Args = []ast.Expr{&ast.SelectorExpr{X: x, Sel: ast.NewIdent("RUnlock")}}
		}
		counts["R1_locks"]++
		return
	}
	if obj, ok := info.Uses[se.Sel].(*types.Func); ok && obj.Pkg() != nil && obj.Pkg().Path() == "go.etcd.io/bbolt" && obj.Name() == "Open" {
		if _, isPkg := info.Uses[identOf(se.X)].(*types.PkgName); isPkg {
			inner := &ast.CallExpr{Fun: c.Fun, Args: c.Args, Ellipsis: c.Ellipsis}
			c.Fun = sel("simrt", "BoltOpened")
			c.Args = []ast.Expr{inner}
			c.Ellipsis = token.NoPos
			counts["R3_boltopen"]++
		}
	}
}

func identOf(e ast.Expr) *ast.Ident {
	id, _ := e.(*ast.Ident)
	return id
}

func orderedKey(t types.Type) bool {
	b, ok := t.Underlying().(*types.Basic)
	if !ok {
		return false
	}
	return b.Info()&(types.IsInteger|types.IsFloat|types.IsString) != 0
}

func isBlank(e ast.Expr) bool {
	id, ok := e.(*ast.Ident)
	return e == nil || (ok && id.Name == "_")
}

func rewriteRange(info *types.Info, r *ast.RangeStmt) {
	t := info.TypeOf(r.X)
	if t == nil {
		return
	}
	m, ok := t.Underlying().(*types.Map)
	if !ok {
		return
	}
	if !orderedKey(m.Key()) || !pure(r.X) || (r.Tok != token.DEFINE && !(r.Key == nil && r.Value == nil)) {
		notes = append(notes, fmt.Sprintf("%s: map range left in native order", fsetG.Position(r.Pos())))
		counts["R5_skipped"]++
		return
	}
	fresh++
	kname := fmt.Sprintf("simk__%d", fresh)
	okname := fmt.Sprintf("simok__%d", fresh)
	var key ast.Expr = ast.NewIdent(kname)
	if !isBlank(r.Key) {
		key = r.Key
		kname = r.Key.(*ast.Ident).Name
	}
	mx := r.X
	var pre []ast.Stmt
	idx := &ast.IndexExpr{X: mx, Index: ast.NewIdent(kname)}
	cont := &ast.BranchStmt{Tok: token.CONTINUE}
	if !isBlank(r.Value) {
		pre = append(pre,
			&ast.AssignStmt{Lhs: []ast.Expr{r.Value, ast.NewIdent(okname)}, Tok: token.DEFINE, Rhs: []ast.Expr{idx}},
			&ast.IfStmt{Cond: &ast.UnaryExpr{Op: token.NOT, X: ast.NewIdent(okname)}, Body: &ast.BlockStmt{List: []ast.Stmt{cont}}},
		)
	} else {
		pre = append(pre, &ast.IfStmt{
			Init: &ast.AssignStmt{Lhs: []ast.Expr{ast.NewIdent("_"), ast.NewIdent(okname)}, Tok: token.DEFINE, Rhs: []ast.Expr{idx}},
			Cond: &ast.UnaryExpr{Op: token.NOT, X: ast.NewIdent(okname)},
			Body: &ast.BlockStmt{List: []ast.Stmt{cont}},
		})
	}
	for _, s := range pre {
		noYield[s] = true
		if is, ok := s.(*ast.IfStmt); ok {
			noYieldBlocks[is.Body] = true
		}
	}
	r.Key = ast.NewIdent("_")
	r.Value = key
	r.Tok = token.DEFINE
	r.X = &ast.CallExpr{Fun: sel("simrt", "Keys"), Args: []ast.Expr{mx}}
	r.Body.List = append(pre, r.Body.List...)
	counts["R5_maprange"]++
}

var noYieldBlocks = map[*ast.BlockStmt]bool{}

// locksOnly: a dependency (bbolt) gets R1/R1b/R1c only: its locks cooperate with the scheduler, so that a task
// waiting for one of them is seen as blocked instead of stalling the simulation; no yields, no other rewrites.
var locksOnly bool

var ctorFound, ctorOK bool

func driverRowsInterface(pkg *packages.Package) *types.Interface {
	imp := pkg.Imports["database/sql/driver"]
	if imp == nil || imp.Types == nil {
		return nil
	}
	obj := imp.Types.Scope().Lookup("Rows")
	if obj == nil {
		return nil
	}
	iface, _ := obj.Type().Underlying().(*types.Interface)
	return iface
}

func processFile(pkg *packages.Package, f *ast.File, path string) ([]byte, bool, error) {
	info := pkg.TypesInfo
	curFile = path
	// R1 + R3 on the original call nodes (type info is keyed by them)
	var calls []*ast.CallExpr
	var ranges []*ast.RangeStmt
	ast.Inspect(f, func(n ast.Node) bool {
		switch v := n.(type) {
		case *ast.CallExpr:
			calls = append(calls, v)
		case *ast.RangeStmt:
			ranges = append(ranges, v)
		}
		return true
	})
	for _, c := range calls {
		rewriteCall(info, c)
	}
	if !locksOnly {
		for _, r := range ranges {
			rewriteRange(info, r)
		}
	}
	// R2
	skip := map[*ast.BlockStmt]bool{}
	skipClause := map[ast.Node]bool{}
	hasBody := false
	// methods of types implementing database/sql/driver.Rows get no yields: database/sql calls
	// them holding Rows.closemu, a real RWMutex that a cancelled context's watcher goroutine
	// wants exclusively; a task parked there would stall the simulation (not the program)
	if rowsIface := driverRowsInterface(pkg); rowsIface != nil {
		for _, d := range f.Decls {
			fd, ok := d.(*ast.FuncDecl)
			if !ok || fd.Recv == nil || fd.Body == nil || len(fd.Recv.List) == 0 {
				continue
			}
			rt := info.TypeOf(fd.Recv.List[0].Type)
			if rt == nil {
				continue
			}
			if types.Implements(rt, rowsIface) || types.Implements(types.NewPointer(rt), rowsIface) {
				counts["R2_unyielded_driver_rows_methods"]++
				ast.Inspect(fd.Body, func(n ast.Node) bool {
					switch b := n.(type) {
					case *ast.BlockStmt:
						noYieldBlocks[b] = true
					case *ast.CaseClause, *ast.CommClause:
						skipClause[b] = true
					}
					return true
				})
			}
		}
	}
	ast.Inspect(f, func(n ast.Node) bool {
		if locksOnly {
			return false
		}
		switch b := n.(type) {
		case *ast.SwitchStmt:
			skip[b.Body] = true
		case *ast.TypeSwitchStmt:
			skip[b.Body] = true
		case *ast.SelectStmt:
			skip[b.Body] = true
		case *ast.BlockStmt:
			if !skip[b] && !noYieldBlocks[b] {
				if len(b.List) > 0 {
					hasBody = true
				}
				b.List = withYields(b.List)
			}
		case *ast.CaseClause:
			if skipClause[b] {
				return true
			}
			if len(b.Body) > 0 {
				hasBody = true
			}
			b.Body = withYields(b.Body)
		case *ast.CommClause:
			if skipClause[b] {
				return true
			}
			if len(b.Body) > 0 {
				hasBody = true
			}
			b.Body = withYields(b.Body)
		}
		return true
	})
	used := hasBody
	if !used {
		var buf bytes.Buffer
		_ = format.Node(&buf, fsetG, f)
		used = strings.Contains(buf.String(), "simrt.") || strings.Contains(buf.String(), "simhook.")
	}
	if !used {
		return nil, false, nil
	}
	imp := &ast.ImportSpec{Path: &ast.BasicLit{Kind: token.STRING, Value: `"verif/simrt"`}}
	if locksOnly {
		imp = &ast.ImportSpec{Name: ast.NewIdent("simhook"), Path: &ast.BasicLit{Kind: token.STRING, Value: `"verif/simrt/hook"`}}
	}
	f.Decls = append([]ast.Decl{&ast.GenDecl{Tok: token.IMPORT, Specs: []ast.Spec{imp}}}, f.Decls...)
	// keep build constraints, drop the other comments (their positions are stale)
	var keep []string
	for _, cg := range f.Comments {
		if cg.Pos() > f.Package {
			break
		}
		for _, c := range cg.List {
			if strings.HasPrefix(c.Text, "//go:build") || strings.HasPrefix(c.Text, "// +build") {
				keep = append(keep, c.Text)
			}
		}
	}
	f.Comments = nil
	f.Doc = nil
	var buf bytes.Buffer
	for _, k := range keep {
		buf.WriteString(k + "\n")
	}
	if len(keep) > 0 {
		buf.WriteString("\n")
	}
	if err := format.Node(&buf, fsetG, f); err != nil {
		return nil, false, err
	}
	return buf.Bytes(), true, nil
}

// serverCtor finds the call that registers the gRPC service in a file of the CLI package and returns the source
// of a function that constructs the service value exactly as that call does (R4b). The in-process worlds use it
// instead of a struct literal of their own: a tree that adds a field which needs initialising (a semaphore, a
// pool) would otherwise be driven with a half-built handler. ok=false: the expression uses other local variables
// than the index and cannot be lifted out of its function.
func serverCtor(pkg *packages.Package, f *ast.File) (src string, found, ok bool) {
	info := pkg.TypesInfo
	var call *ast.CallExpr
	ast.Inspect(f, func(n ast.Node) bool {
		if c, isCall := n.(*ast.CallExpr); isCall && len(c.Args) == 2 {
			if se, isSel := c.Fun.(*ast.SelectorExpr); isSel && se.Sel.Name == "RegisterQueryServiceServer" {
				call = c
			}
		}
		return call == nil
	})
	if call == nil {
		return "", false, false
	}
	names := map[string]string{} // import path -> name used in this file
	for _, im := range f.Imports {
		path := strings.Trim(im.Path.Value, "\"")
		if im.Name != nil {
			names[path] = im.Name.Name
		} else if ip := pkg.Imports[path]; ip != nil {
			names[path] = ip.Name
		}
	}
	qual := func(p *types.Package) string {
		if n, has := names[p.Path()]; has {
			return n
		}
		return p.Name()
	}
	e := call.Args[1]
	var idxVar *types.Var
	good := true
	ast.Inspect(e, func(n ast.Node) bool {
		id, isID := n.(*ast.Ident)
		if !isID {
			return true
		}
		v, isVar := info.Uses[id].(*types.Var)
		if !isVar || v.IsField() || v.Parent() == nil || v.Parent() == pkg.Types.Scope() || v.Parent() == types.Universe {
			return true
		}
		if strings.HasSuffix(types.TypeString(v.Type(), nil), "updog.Index") && (idxVar == nil || idxVar == v) {
			idxVar = v
			return true
		}
		good = false
		return true
	})
	if !good || idxVar == nil {
		return "", true, false
	}
	var eb, xb bytes.Buffer
	if format.Node(&eb, pkg.Fset, e) != nil || format.Node(&xb, pkg.Fset, call.Fun.(*ast.SelectorExpr).X) != nil {
		return "", true, false
	}
	return fmt.Sprintf("\n// VerifNewServer builds the gRPC service value exactly as the program registers it (generated, rewrite R4b).\nfunc VerifNewServer(%s %s) %s.QueryServiceServer {\n\treturn %s\n}\n",
		idxVar.Name(), types.TypeString(idxVar.Type(), qual), xb.String(), eb.String()), true, true
}

func main() {
	root := flag.String("root", "", "scratch copy of the module to rewrite in place")
	sitesOut := flag.String("sites", "", "write the yield-site table here")
	cli := flag.String("cli", "cmd/updog", "package main (relative dir) to also emit as importable package verifcli")
	deps := flag.String("deps", "", "comma-separated import paths of dependencies (replaced by copies below -root) whose locks are rewritten")
	flag.Parse()
	if *root == "" {
		fmt.Fprintln(os.Stderr, "usage: instrument -root <dir>")
		os.Exit(2)
	}
	abs, _ := filepath.Abs(*root)
	rootDir = abs
	cfg := &packages.Config{
		Mode: packages.NeedName | packages.NeedFiles | packages.NeedCompiledGoFiles | packages.NeedSyntax | packages.NeedTypes | packages.NeedTypesInfo | packages.NeedImports,
		Dir:  abs,
		Env:  os.Environ(),
	}
	pkgs, err := packages.Load(cfg, "./...")
	if err != nil {
		fmt.Fprintln(os.Stderr, "instrument: load:", err)
		os.Exit(2)
	}
	bad := false
	for _, p := range pkgs {
		for _, e := range p.Errors {
			fmt.Fprintln(os.Stderr, "instrument: package error:", e)
			bad = true
		}
	}
	if bad {
		os.Exit(2)
	}
	nfiles := 0
	for _, p := range pkgs {
		if strings.Contains(p.PkgPath, "/proto/") || strings.Contains(p.PkgPath, "/verifsim") || strings.Contains(p.PkgPath, "/verifcli") {
			continue
		}
		fsetG = p.Fset
		isCLI := false
		for i, f := range p.Syntax {
			path := p.CompiledGoFiles[i]
			if !strings.HasPrefix(path, abs+string(filepath.Separator)) {
				continue
			}
			if strings.HasSuffix(path, "_test.go") || strings.HasSuffix(path, ".pb.go") {
				continue
			}
			rel0, _ := filepath.Rel(abs, filepath.Dir(path))
			ctor := ""
			if p.Name == "main" && rel0 == *cli {
				if src, found, ok := serverCtor(p, f); found {
					ctorFound = true
					if ok {
						ctor, ctorOK = src, true
					}
				}
			}
			src, changed, err := processFile(p, f, path)
			if err != nil {
				fmt.Fprintln(os.Stderr, "instrument:", path, err)
				os.Exit(2)
			}
			if !changed {
				// still needed verbatim for the verifcli copy
				src, _ = os.ReadFile(path)
			} else {
				if err := os.WriteFile(path, src, 0o644); err != nil {
					fmt.Fprintln(os.Stderr, "instrument:", err)
					os.Exit(2)
				}
				nfiles++
			}
			rel, _ := filepath.Rel(abs, filepath.Dir(path))
			if p.Name == "main" && rel == *cli {
				isCLI = true
				// R4: importable twin
				out := bytes.Replace(src, []byte("package main"), []byte("package verifcli"), 1)
				out = bytes.Replace(out, []byte("func main()"), []byte("func Main()"), 1)
				out = append(out, []byte(ctor)...)
				dst := filepath.Join(abs, "verifcli")
				_ = os.MkdirAll(dst, 0o755)
				if err := os.WriteFile(filepath.Join(dst, filepath.Base(path)), out, 0o644); err != nil {
					fmt.Fprintln(os.Stderr, "instrument:", err)
					os.Exit(2)
				}
			}
		}
		if isCLI && !ctorOK {
			// no liftable registration call: the worlds that need the handler in-process say so (harness
			// trouble) instead of guessing how the program builds it
			stub := "package verifcli\n\nimport (\n\t\"github.com/akrennmair/updog\"\n\tproto \"github.com/akrennmair/updog/proto/updog/v1\"\n)\n\n// VerifNewServer: the instrumenter found no service registration it could lift (found=" + fmt.Sprint(ctorFound) + ").\nfunc VerifNewServer(idx *updog.Index) proto.QueryServiceServer { return nil }\n"
			_ = os.WriteFile(filepath.Join(abs, "verifcli", "zz_verif_ctor.go"), []byte(stub), 0o644)
			notes = append(notes, "R4b: service constructor not lifted; in-process server worlds will report harness trouble")
		}
		if isCLI && ctorOK {
			counts["R4b_server_ctor"] = 1
		}
	}
	if *deps != "" {
		locksOnly = true
		dpkgs, err := packages.Load(cfg, strings.Split(*deps, ",")...)
		if err != nil {
			fmt.Fprintln(os.Stderr, "instrument: load deps:", err)
			os.Exit(2)
		}
		for _, p := range dpkgs {
			for _, e := range p.Errors {
				fmt.Fprintln(os.Stderr, "instrument: package error:", e)
				os.Exit(2)
			}
			fsetG = p.Fset
			for i, f := range p.Syntax {
				path := p.CompiledGoFiles[i]
				if !strings.HasPrefix(path, abs+string(filepath.Separator)) || strings.HasSuffix(path, "_test.go") {
					continue
				}
				before := counts["R1_locks"] + counts["R1_once"] + counts["R1_cond"]
				src, changed, err := processFile(p, f, path)
				if err != nil {
					fmt.Fprintln(os.Stderr, "instrument:", path, err)
					os.Exit(2)
				}
				if changed {
					if err := os.WriteFile(path, src, 0o644); err != nil {
						fmt.Fprintln(os.Stderr, "instrument:", err)
						os.Exit(2)
					}
					counts["deps_files"]++
					counts["deps_lock_ops"] += counts["R1_locks"] + counts["R1_once"] + counts["R1_cond"] - before
				}
			}
		}
		locksOnly = false
	}
	counts["R2_yield_sites"] = len(sites)
	counts["files"] = nfiles
	if *sitesOut != "" {
		b, _ := json.Marshal(map[string]any{"sites": sites, "counts": counts, "notes": notes})
		_ = os.WriteFile(*sitesOut, b, 0o644)
	}
	fmt.Printf("instrument: %d files, %d yield sites, %d lock/once/cond ops (of which %d in %d files of dependencies), %d go statements, %d bbolt.Open, %d map ranges (%d left native)\n",
		nfiles, len(sites), counts["R1_locks"]+counts["R1_once"]+counts["R1_cond"], counts["deps_lock_ops"], counts["deps_files"], counts["R6_go"], counts["R3_boltopen"], counts["R5_maprange"], counts["R5_skipped"])
	for _, n := range notes {
		fmt.Println("instrument: note:", n)
	}
}
