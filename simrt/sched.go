package simrt

import (
	"fmt"
	"runtime"
	"runtime/debug"
	"sort"
	"sync"
	"testing/synctest"
	"time"
)

func getg() uintptr

const (
	stRunning int32 = iota // released; either executing or blocked outside the simulator
	stParked               // waiting at a yield (or arrived) — runnable
	stBlocked              // failed a simulated TryLock — runnable once an unlock happened
	stDone
)

type task struct {
	id     int
	g      uintptr
	park   chan struct{}
	state  int32
	epoch  int64
	yields int64
	prio   int
	fn     func()
	daemon bool // started by the code under test (a `go` statement), not by the world
	condWoken bool

	panicVal   string
	panicStack string
}

// Preempt is one recorded pre-emption: at the N-th yield of task T the scheduler switched
// to task To. Keyed by per-task counters so that deleting one entry does not shift others.
type Preempt struct {
	T  int   `json:"t"`
	N  int64 `json:"n"`
	To int   `json:"to"`
}

// Trace is a complete schedule: pre-emptions plus the choices made at every decision
// point that was not a pre-emption (start, task blocked, task finished, wake-up).
type Trace struct {
	Pre  []Preempt `json:"pre"`
	Pick []int     `json:"pick"`
}

// Config selects how a run is scheduled.
type Config struct {
	Seed      uint64
	Strategy  string // "rand", "pct", "seq" (never pre-empt; lowest id first)
	P         uint64 // rand: per-mille pre-emption probability at each yield
	Depth     int    // pct: number of priority change points
	Horizon   int64  // pct: change points are drawn in [1,Horizon] of the global yield count
	Replay    *Trace // when set, Strategy/Seed are ignored for scheduling decisions
	HangAfter time.Duration
	MapSeed   uint64 // permutation stream for Keys()
}

// TaskPanic records a recovered panic of a task.
type TaskPanic struct {
	Task  int    `json:"task"`
	Value string `json:"value"`
	Stack string `json:"stack"`
}

// Result is what a run reports.
type Result struct {
	Trace     Trace
	Yields    int64
	Decisions int
	Switches  int
	Hang      bool
	Deadlock  bool
	Stacks    string // goroutine dump taken at hang/deadlock
	Panics    []TaskPanic
	SimTime   time.Duration
	ILHash    uint64 // hash of the context-switch sequence (from,to,yield#)
	Arrivals  int
	Spawned   int // goroutines started by the code under test that were adopted as tasks
	HooksFired int
}

// Sim is the state of the one simulation active in this process.
type Sim struct {
	cfg     Config
	fin     chan struct{} // closed when Run returns: finished tasks wait for it
	tasks   []*task
	current *task
	pre     map[[2]int64]int
	pickPos int
	rng     *Rand
	step    int64 // global yield count (only the running task increments)
	change  map[int64]int
	seq     uint64
	pending *Preempt
	once    []*onceState
	conds   []*condState
	hookAt  int64
	hookFn  func()
	res     *Result
	wg      sync.WaitGroup
	mapRng  uint64
	mapCtr  uint64
}

var (
	activeFlag int32 // plain int32 read in norace code: set before tasks are released
	cur        *Sim
	epochCtr   int64
)

// Active reports whether a simulation is running in this process.
//
//go:norace
func Active() bool { return activeFlag != 0 }

//go:norace
func lookup() (*Sim, *task) {
	if activeFlag == 0 {
		return nil, nil
	}
	s := cur
	if s == nil {
		return nil, nil
	}
	g := getg()
	for _, t := range s.tasks {
		if t.g == g {
			return s, t
		}
	}
	return s, nil
}

// handoff parks the calling task in state st until the scheduler releases it. The
// synchronisation of the hand-off is hidden from the race detector so that two tasks are
// ordered only by what the code under test does.
//
//go:norace
func (s *Sim) handoff(t *task, st int32) {
	raceDisable()
	t.state = st
	<-t.park
	t.state = stRunning
	raceEnable()
}

// arrive parks a task that was woken outside the scheduler's control (it had been blocked
// in uninstrumented code) before it executes any instrumented statement.
//
//go:norace
func (s *Sim) arrive(t *task) bool {
	if s.current != t {
		s.res.Arrivals++
		s.handoff(t, stParked)
		return true
	}
	return false
}

// Yield is inserted before every statement of the code under test.
//
//go:norace
func Yield(site uint32) {
	if activeFlag == 0 {
		return
	}
	s, t := lookup()
	if t == nil {
		return
	}
	if s.arrive(t) {
		return
	}
	t.yields++
	s.step++
	s.res.Yields++
	if s.hookFn != nil && s.step >= s.hookAt {
		fn := s.hookFn
		s.hookFn = nil
		s.res.HooksFired++
		fn()
		// the fault may have woken a task that was blocked outside the simulator: park here, so
		// that it arrives (and the scheduler decides) before anybody executes another statement
		s.pending = &Preempt{T: t.id, N: t.yields, To: -1}
		s.handoff(t, stParked)
		return
	}
	if s.cfg.Replay != nil {
		if to, ok := s.pre[[2]int64{int64(t.id), t.yields}]; ok {
			s.pending = &Preempt{T: t.id, N: t.yields, To: to}
			s.handoff(t, stParked)
		}
		return
	}
	switch s.cfg.Strategy {
	case "rand":
		if Hash3(s.cfg.Seed, uint64(t.id)+1, uint64(t.yields))%1000 < s.cfg.P {
			s.pending = &Preempt{T: t.id, N: t.yields, To: -1}
			s.handoff(t, stParked)
		}
	case "pct":
		if lvl, ok := s.change[s.step]; ok {
			t.prio = -lvl // below every initial priority
			s.pending = &Preempt{T: t.id, N: t.yields, To: -1}
			s.handoff(t, stParked)
		}
	}
}

//go:norace
func lockLoop(try func() bool, lock func()) {
	s, t := lookup()
	if s == nil {
		lock()
		return
	}
	if t == nil {
		// a goroutine that is not a task (spawned by the code under test): spin on fake
		// time, which is durably blocking, so quiescence is still reached
		d := time.Microsecond
		for !try() {
			time.Sleep(d)
			if d < 50*time.Millisecond {
				d *= 2 // the holder may be stuck for simulated minutes (hang detection)
			}
		}
		return
	}
	s.arrive(t)
	for !try() {
		t.epoch = epochCtr
		s.handoff(t, stBlocked)
	}
}

//go:norace
func unlockHook() {
	if activeFlag == 0 {
		return
	}
	s, t := lookup()
	if t != nil {
		s.arrive(t)
	}
}

// Lock and friends replace X.Lock() etc. in the instrumented copy.
func Lock(try func() bool, lock func())  { lockLoop(try, lock) }
func RLock(try func() bool, lock func()) { lockLoop(try, lock) }
func Unlock(unlock func())               { unlockHook(); unlock(); bump() }
func RUnlock(unlock func())              { unlockHook(); unlock(); bump() }

//go:norace
func bump() {
	if activeFlag != 0 {
		epochCtr++
	}
}

type onceState struct {
	key    any
	done   bool
	runner *task
}

// onceOf: a linear scan over a slice — Go's map runtime reports accesses to the race
// detector on behalf of its caller, even from a norace function.
//
//go:norace
func (s *Sim) onceOf(key any) *onceState {
	for _, st := range s.once {
		if st.key == key {
			return st
		}
	}
	st := &onceState{key: key}
	s.once = append(s.once, st)
	return st
}

// OnceDo replaces X.Do(f) on a sync.Once in the instrumented copy. The real Once holds a
// real mutex while f runs; a second task calling Do while the first is parked inside f
// would block on that mutex, which the simulator cannot see. Here the second task waits
// like on a simulated lock and enters the real Do only when it returns immediately (its
// atomic fast path still gives the race detector the happens-before edge).
//
//go:norace
func OnceDo(key any, do func(func()), f func()) {
	s, t := lookup()
	if s == nil || t == nil {
		do(f)
		return
	}
	s.arrive(t)
	var st *onceState
	for {
		st = s.onceOf(key)
		if st.done || st.runner == nil || st.runner == t {
			break
		}
		t.epoch = epochCtr
		s.handoff(t, stBlocked)
	}
	if st.done || st.runner == t {
		do(f)
		return
	}
	st.runner = t
	defer onceFinish(st)
	do(f)
}

//go:norace
func onceFinish(st *onceState) {
	st.done = true
	st.runner = nil
	epochCtr++
}

// ArmHook schedules fn (a fault: cancel a context, ...) to run when the simulation has passed
// k more statements of the code under test, in whichever task is running then. Disarm removes
// a hook that has not fired. Both are called by the running task.
//
//go:norace
func ArmHook(k int64, fn func()) {
	s := cur
	if s == nil {
		return
	}
	s.hookAt, s.hookFn = s.step+k, fn
}

//go:norace
func DisarmHook() bool {
	s := cur
	if s == nil || s.hookFn == nil {
		return false
	}
	s.hookFn = nil
	return true
}

type condState struct {
	key     *sync.Cond
	waiting []*task
}

//go:norace
func (s *Sim) condOf(c *sync.Cond) *condState {
	for _, st := range s.conds {
		if st.key == c {
			return st
		}
	}
	st := &condState{key: c}
	s.conds = append(s.conds, st)
	return st
}

// CondWait / CondSignal / CondBroadcast replace the methods of sync.Cond in the instrumented
// copy. The real Wait re-acquires c.L with a real Lock when it wakes; if a parked task holds
// that mutex the waiter would block where the simulator cannot see it. Here a waiting task
// releases c.L, waits like on a simulated lock until a Signal/Broadcast selected it, and
// re-acquires c.L through TryLock. Signal wakes the longest-waiting task, Broadcast all.
//
//go:norace
func CondWait(c *sync.Cond) {
	s, t := lookup()
	if s == nil || t == nil {
		c.Wait()
		return
	}
	s.arrive(t)
	st := s.condOf(c)
	st.waiting = append(st.waiting, t)
	t.condWoken = false
	c.L.Unlock()
	epochCtr++
	for !t.condWoken {
		t.epoch = epochCtr
		s.handoff(t, stBlocked)
	}
	if tl, ok := c.L.(interface{ TryLock() bool }); ok {
		lockLoop(tl.TryLock, c.L.Lock)
	} else {
		c.L.Lock()
	}
}

//go:norace
func CondSignal(c *sync.Cond) {
	if s, t := lookup(); s != nil && t != nil {
		s.arrive(t)
		st := s.condOf(c)
		if len(st.waiting) > 0 {
			w := st.waiting[0]
			st.waiting = st.waiting[1:]
			w.condWoken = true
			epochCtr++
		}
	}
	c.Signal()
}

//go:norace
func CondBroadcast(c *sync.Cond) {
	if s, t := lookup(); s != nil && t != nil {
		s.arrive(t)
		st := s.condOf(c)
		for _, w := range st.waiting {
			w.condWoken = true
		}
		st.waiting = nil
		epochCtr++
	}
	c.Broadcast()
}

// Stamp returns the next global event sequence number (for history stamps).
//
//go:norace
func Stamp() uint64 {
	s := cur
	if s == nil {
		return 0
	}
	s.seq++
	return s.seq
}

// CurrentTask returns the id of the calling task, or -1.
//
//go:norace
func CurrentTask() int {
	_, t := lookup()
	if t == nil {
		return -1
	}
	return t.id
}

//go:norace
func taskMain(s *Sim, t *task, ready chan struct{}) {
	t.g = getg()
	ready <- struct{}{}
	raceDisable()
	<-t.park
	t.state = stRunning
	raceEnable()
	runTask(t)
	// visible edge task -> Run()'s caller only (ReleaseMerge does not order tasks among
	// themselves)
	if !t.daemon {
		s.wg.Done()
	}
	raceDisable()
	t.g = 0
	t.state = stDone
	raceEnable()
	// stay alive until the run is over: the race detector recycles the context of a goroutine that has
	// finished, and with it goes what it knew about that goroutine's earlier accesses (a race against a task that
	// had already returned was reported or not depending on how warm the process was)
	<-s.fin
}

// Go replaces `go f(...)` in the instrumented copy: a goroutine started by a task becomes a
// task itself (its statements are scheduling points like everyone else's), so helper
// goroutines of the code under test can be interleaved with their parents and siblings.
// The real `go` statement inside keeps the parent->child happens-before edge a Go program
// has. Started from a goroutine that is not a task, it is a plain `go`.
//
//go:norace
func Go(fn func()) {
	s, t := lookup()
	if s == nil || t == nil {
		go fn()
		return
	}
	s.arrive(t)
	nt := &task{id: len(s.tasks), park: make(chan struct{}), state: stParked, fn: fn, prio: t.prio, daemon: true}
	s.tasks = append(s.tasks, nt)
	s.res.Spawned++
	ready := make(chan struct{})
	go taskMain(s, nt, ready)
	<-ready
}

func runTask(t *task) {
	defer func() {
		if r := recover(); r != nil {
			setPanic(t, fmt.Sprint(r), string(debug.Stack()))
		}
	}()
	t.fn()
}

//go:norace
func setPanic(t *task, v, st string) { t.panicVal, t.panicStack = v, st }

// Run executes fns as tasks under the configured schedule. It must be called from inside a
// synctest bubble. Everything the tasks share must have been created before the call.
//
//go:norace
func Run(cfg Config, fns []func()) *Result {
	if cfg.HangAfter == 0 {
		cfg.HangAfter = 10 * time.Minute
	}
	res := &Result{}
	s := &Sim{cfg: cfg, res: res, rng: Sub(cfg.Seed, "sched"), mapRng: cfg.MapSeed, fin: make(chan struct{})}
	defer close(s.fin)
	if cfg.Replay != nil {
		s.pre = make(map[[2]int64]int, len(cfg.Replay.Pre))
		for _, p := range cfg.Replay.Pre {
			s.pre[[2]int64{int64(p.T), p.N}] = p.To
		}
	}
	n := len(fns)
	prios := make([]int, n)
	for i := range prios {
		prios[i] = i + 1
	}
	if cfg.Strategy == "pct" {
		for i := n - 1; i > 0; i-- {
			j := s.rng.Intn(i + 1)
			prios[i], prios[j] = prios[j], prios[i]
		}
		s.change = map[int64]int{}
		h := cfg.Horizon
		if h < 10 {
			h = 10
		}
		for i := 0; i < cfg.Depth; i++ {
			s.change[1+int64(s.rng.U64()%uint64(h))] = i + 1
		}
	}
	for i, fn := range fns {
		s.tasks = append(s.tasks, &task{id: i, park: make(chan struct{}), state: stParked, fn: fn, prio: prios[i]})
	}
	ready := make(chan struct{})
	s.wg.Add(n)
	for _, t := range s.tasks {
		go taskMain(s, t, ready)
		<-ready
	}
	epochCtr = 0
	cur = s
	activeFlag = 1
	defer func() { activeFlag = 0; cur = nil }()

	var idle time.Duration
	t0 := time.Now()
	il := uint64(0x1234567)
	for {
		synctest.Wait()
		var runnable []*task
		done, ext := 0, 0
		for _, t := range s.tasks {
			switch t.state {
			case stParked:
				runnable = append(runnable, t)
			case stBlocked:
				if t.epoch != epochCtr {
					runnable = append(runnable, t)
				}
			case stDone:
				if !t.daemon {
					done++
				}
			case stRunning:
				ext++
			}
		}
		if done == n && len(runnable) == 0 {
			// every task of the world has finished and no adopted goroutine can make progress
			// on its own (each is finished or waiting for something outside the simulation)
			break
		}
		if len(runnable) == 0 {
			if ext == 0 {
				res.Deadlock = true
				res.Stacks = allStacks()
				break
			}
			time.Sleep(time.Second)
			idle += time.Second
			if idle > cfg.HangAfter {
				res.Hang = true
				res.Stacks = allStacks()
				break
			}
			continue
		}
		idle = 0
		pre := s.pending
		s.pending = nil
		next := s.choose(runnable, pre)
		res.Decisions++
		if pre != nil {
			pre.To = next.id
			if next.id != pre.T {
				res.Trace.Pre = append(res.Trace.Pre, *pre)
			}
		} else {
			res.Trace.Pick = append(res.Trace.Pick, next.id)
		}
		if s.current != next {
			res.Switches++
			from := -1
			if s.current != nil {
				from = s.current.id
			}
			il = Hash3(il, uint64(from+1)<<8|uint64(next.id), uint64(next.yields))
		}
		s.current = next
		raceDisable()
		next.state = stRunning
		next.park <- struct{}{}
		raceEnable()
	}
	res.SimTime = time.Since(t0)
	res.ILHash = il
	for _, t := range s.tasks {
		if t.panicVal != "" {
			res.Panics = append(res.Panics, TaskPanic{Task: t.id, Value: t.panicVal, Stack: t.panicStack})
		}
	}
	if !res.Hang && !res.Deadlock {
		s.wg.Wait()
	}
	return res
}

//go:norace
func (s *Sim) choose(runnable []*task, pre *Preempt) *task {
	sort.Slice(runnable, func(i, j int) bool { return runnable[i].id < runnable[j].id })
	find := func(id int) *task {
		for _, t := range runnable {
			if t.id == id {
				return t
			}
		}
		return nil
	}
	if s.cfg.Replay != nil {
		if pre != nil {
			if t := find(pre.To); t != nil {
				return t
			}
			// recorded target not runnable (trace was thinned): any other task, else stay
			for _, t := range runnable {
				if t.id != pre.T {
					return t
				}
			}
			return runnable[0]
		}
		if s.pickPos < len(s.cfg.Replay.Pick) {
			id := s.cfg.Replay.Pick[s.pickPos]
			s.pickPos++
			if t := find(id); t != nil {
				return t
			}
		}
		// exhausted or thinned trace: keep running the current task when possible
		if s.current != nil {
			if t := find(s.current.id); t != nil {
				return t
			}
		}
		return runnable[0]
	}
	switch s.cfg.Strategy {
	case "pct":
		best := runnable[0]
		for _, t := range runnable[1:] {
			if t.prio > best.prio {
				best = t
			}
		}
		return best
	case "rand":
		cand := runnable
		if pre != nil && len(runnable) > 1 {
			cand = nil
			for _, t := range runnable {
				if t.id != pre.T {
					cand = append(cand, t)
				}
			}
		}
		return cand[s.rng.Intn(len(cand))]
	default:
		return runnable[0]
	}
}

func allStacks() string {
	buf := make([]byte, 1<<20)
	n := runtime.Stack(buf, true)
	return string(buf[:n])
}
