package simrt

import (
	"errors"
	"fmt"
	"os"
	"reflect"
	"sync"
	"syscall"
	"unsafe"

	"go.etcd.io/bbolt"
)

// WriteRec is one write that reached bbolt's writeAt seam.
type WriteRec struct {
	Idx    int    // global write index on this disk
	Off    int64  // file offset
	Data   []byte // bytes handed to writeAt (copy)
	FLen   int64  // file length observed right after the write
	NoSync bool   // DB.NoSync at the time of the write
	Meta   bool   // targets one of bbolt's two meta pages
	Failed bool   // an injected error was returned for this write
	Short  int    // >0: only this many bytes were written before the injected error
	Path   string // name of the file at the time of the write (it may have been renamed since it was opened)
}

// FileLog is everything the disk knows about one bbolt file.
type FileLog struct {
	Path     string
	PageSize int
	Base     []byte // content right after the first bbolt.Open returned (nil: opened existing file, Base = its content)
	Fresh    bool   // the file was created by that Open (size == 4 pages, first seen)
	Writes   []WriteRec
	ReadOnly bool // harness expectation: any write is a stray write
	Stray    int
	Opens    int
}

// Disk is a recording and injecting proxy over bbolt's write path. bbolt, the file and
// mmap stay real; what is ours is the log of writes (from which crash images are
// synthesised) and the decision whether a write succeeds.
type Disk struct {
	mu     sync.Mutex
	Files  map[string]*FileLog
	Order  []string
	NWrite int

	// fault plan
	FailAt    int    // global write index at which to inject a write error (-1: never)
	FailErr   string // "eio" | "enospc"
	FailShort bool   // write a prefix of the buffer before failing
	FailOnly  string // restrict FailAt counting to this path ("" = all files)
	FailExcept string // when set: count every file EXCEPT this path (e.g. the big writer's temp DB)
	Fired     int

	FailOpen map[string]string // path -> error kind: BoltOpened turns a successful open into an error
	ExpectRO map[string]bool

	nfail int
}

func NewDisk() *Disk {
	return &Disk{Files: map[string]*FileLog{}, FailAt: -1, FailOpen: map[string]string{}, ExpectRO: map[string]bool{}}
}

var disk *Disk

// AttachDisk makes BoltOpened route bbolt files through d (nil detaches). Harness state:
// kept out of the race detector's view (a writer goroutine that hung is abandoned, and
// detaching afterwards must not look like a race of the code under test).
//
//go:norace
func AttachDisk(d *Disk) { disk = d }

//go:norace
func currentDisk() *Disk { return disk }

func errOf(kind string) error {
	switch kind {
	case "enospc":
		return &os.PathError{Op: "write", Path: "simdisk", Err: syscall.ENOSPC}
	case "eacces":
		return &os.PathError{Op: "open", Path: "simdisk", Err: syscall.EACCES}
	default:
		return &os.PathError{Op: "write", Path: "simdisk", Err: syscall.EIO}
	}
}

// BoltOpened wraps every bbolt.Open call of the instrumented copy (and of the harness).
func BoltOpened(db *bbolt.DB, err error) (*bbolt.DB, error) {
	d := currentDisk()
	if d == nil && err == nil && db != nil && procFaultsOn() {
		return procFaultProxy(db)
	}
	if d == nil || err != nil || db == nil {
		return db, err
	}
	path := db.Path()
	if kind, ok := d.FailOpen[path]; ok {
		_ = db.Close()
		return nil, errOf(kind)
	}
	d.mu.Lock()
	fl := d.Files[path]
	if fl == nil {
		fl = &FileLog{Path: path, PageSize: db.Info().PageSize}
		if b, e := os.ReadFile(path); e == nil {
			fl.Base = b
			fl.Fresh = len(b) == 4*fl.PageSize
		}
		fl.ReadOnly = d.ExpectRO[path]
		d.Files[path] = fl
		d.Order = append(d.Order, path)
	}
	fl.Opens++
	d.mu.Unlock()

	f := reflect.ValueOf(db).Elem().FieldByName("ops").FieldByName("writeAt")
	if !f.IsValid() {
		return db, errors.New("simrt: bbolt.DB.ops.writeAt not found (bbolt layout changed)")
	}
	// the descriptor identifies the file even after a rename
	var file *os.File
	if ff := reflect.ValueOf(db).Elem().FieldByName("file"); ff.IsValid() && ff.Kind() == reflect.Ptr {
		file = *(**os.File)(unsafe.Pointer(ff.UnsafeAddr()))
	}
	slot := (*func([]byte, int64) (int, error))(unsafe.Pointer(f.UnsafeAddr()))
	orig := *slot
	*slot = func(b []byte, off int64) (int, error) {
		return d.write(fl, db, file, orig, b, off)
	}
	return db, nil
}

// statFile returns the current length and name of the file behind the DB handle.
func statFile(file *os.File, fallback string) (int64, string) {
	if file != nil {
		if st, err := file.Stat(); err == nil {
			name := fallback
			if l, e := os.Readlink(fmt.Sprintf("/proc/self/fd/%d", file.Fd())); e == nil {
				name = l
			}
			return st.Size(), name
		}
	}
	if st, e := os.Stat(fallback); e == nil {
		return st.Size(), fallback
	}
	return 0, fallback
}

func (d *Disk) write(fl *FileLog, db *bbolt.DB, file *os.File, orig func([]byte, int64) (int, error), b []byte, off int64) (int, error) {
	d.mu.Lock()
	idx := d.NWrite
	d.NWrite++
	counts := (d.FailOnly == "" || d.FailOnly == fl.Path) && (d.FailExcept == "" || d.FailExcept != fl.Path)
	fail := false
	if counts {
		if d.nfail == d.FailAt {
			fail = true
		}
		d.nfail++
	}
	if fl.ReadOnly {
		fl.Stray++
	}
	d.mu.Unlock()

	rec := WriteRec{Idx: idx, Off: off, Data: append([]byte(nil), b...), NoSync: db.NoSync, Meta: off < int64(2*fl.PageSize)}
	if fail {
		d.Fired++
		rec.Failed = true
		n := 0
		if d.FailShort && len(b) > 512 {
			n = (len(b) / 2) &^ 511
			if n > 0 {
				if _, e := orig(b[:n], off); e != nil {
					n = 0
				}
			}
			rec.Short = n
		}
		rec.FLen, rec.Path = statFile(file, fl.Path)
		d.mu.Lock()
		fl.Writes = append(fl.Writes, rec)
		d.mu.Unlock()
		return n, errOf(d.FailErr)
	}
	n, err := orig(b, off)
	rec.FLen, rec.Path = statFile(file, fl.Path)
	d.mu.Lock()
	fl.Writes = append(fl.Writes, rec)
	d.mu.Unlock()
	return n, err
}

// Event is one element of the inferred durable-order log of a file: a write or a sync.
type Event struct {
	Sync  bool
	Write *WriteRec
}

// Events returns the write log with bbolt's syncs inferred from its commit protocol:
// data pages, fdatasync, meta page, fdatasync — unless DB.NoSync was set at that write.
func (fl *FileLog) Events() []Event {
	var ev []Event
	pendingData := false
	for i := range fl.Writes {
		w := &fl.Writes[i]
		if w.Meta {
			if pendingData && !w.NoSync {
				ev = append(ev, Event{Sync: true})
			}
			pendingData = false
			ev = append(ev, Event{Write: w})
			if !w.NoSync && !w.Failed {
				ev = append(ev, Event{Sync: true})
			}
		} else {
			ev = append(ev, Event{Write: w})
			pendingData = true
		}
	}
	return ev
}

// Fate says what happened to a pending (unsynced) write in a crash image.
type Fate int

const (
	Applied Fate = iota
	Lost
	Torn // a seeded subset of its 512-byte sectors is applied
)

// Image synthesises the file content after a crash right after event k (k = -1: before
// any event, i.e. the state bbolt.Open left). fate decides each pending write.
func (fl *FileLog) Image(ev []Event, k int, fate func(w *WriteRec) (Fate, uint64)) []byte {
	img := append([]byte(nil), fl.Base...)
	lastSync := -1
	for i := 0; i <= k && i < len(ev); i++ {
		if ev[i].Sync {
			lastSync = i
		}
	}
	flen := int64(len(img))
	apply := func(w *WriteRec, f Fate, seed uint64) {
		data := w.Data
		if w.Failed {
			data = data[:w.Short]
		}
		end := w.Off + int64(len(data))
		if w.FLen > flen {
			flen = w.FLen
		}
		if end > flen {
			flen = end
		}
		if int64(len(img)) < flen {
			img = append(img, make([]byte, flen-int64(len(img)))...)
		}
		switch f {
		case Applied:
			copy(img[w.Off:], data)
		case Torn:
			for s := 0; s*512 < len(data); s++ {
				if Hash3(seed, uint64(w.Idx), uint64(s))&1 == 0 {
					e := (s + 1) * 512
					if e > len(data) {
						e = len(data)
					}
					copy(img[w.Off+int64(s*512):], data[s*512:e])
				}
			}
		}
	}
	for i := 0; i <= k && i < len(ev); i++ {
		if ev[i].Sync {
			continue
		}
		if i < lastSync {
			apply(ev[i].Write, Applied, 0)
		} else {
			f, seed := fate(ev[i].Write)
			apply(ev[i].Write, f, seed)
		}
	}
	if int64(len(img)) < flen {
		img = append(img, make([]byte, flen-int64(len(img)))...)
	}
	return img
}

// ---- process-level fault point (the instrumented twin of the real binary, run as a child)
//
// VERIF_WRITE_LOG=<file>   one byte is appended per bbolt write (the parent learns the count)
// VERIF_KILL_AT_WRITE=<n>  the process sends itself SIGKILL right before its n-th bbolt write
//
// The count is process-wide and in program order, so a kill position replays exactly —
// unlike strace's per-thread syscall counters.

var (
	procOnce   sync.Once
	procKillAt int64 = -1
	procLog    *os.File
	procCount  int64
	procFiles  int
	procMu     sync.Mutex
)

func procFaultsOn() bool {
	procOnce.Do(func() {
		if v := os.Getenv("VERIF_KILL_AT_WRITE"); v != "" {
			var n int64
			fmt.Sscan(v, &n)
			procKillAt = n
		}
		if p := os.Getenv("VERIF_WRITE_LOG"); p != "" {
			procLog, _ = os.OpenFile(p, os.O_CREATE|os.O_APPEND|os.O_WRONLY, 0o644)
		}
	})
	return procKillAt >= 0 || procLog != nil
}

func procFaultProxy(db *bbolt.DB) (*bbolt.DB, error) {
	f := reflect.ValueOf(db).Elem().FieldByName("ops").FieldByName("writeAt")
	if !f.IsValid() {
		return db, errors.New("simrt: bbolt.DB.ops.writeAt not found (bbolt layout changed)")
	}
	slot := (*func([]byte, int64) (int, error))(unsafe.Pointer(f.UnsafeAddr()))
	orig := *slot
	// one letter per file, in the order the files were opened; the names go to <log>.files
	procMu.Lock()
	tag := byte('A' + procFiles%26)
	procFiles++
	if p := os.Getenv("VERIF_WRITE_LOG"); p != "" {
		if ff, e := os.OpenFile(p+".files", os.O_CREATE|os.O_APPEND|os.O_WRONLY, 0o644); e == nil {
			fmt.Fprintf(ff, "%c %s\n", tag, db.Path())
			ff.Close()
		}
	}
	procMu.Unlock()
	*slot = func(b []byte, off int64) (int, error) {
		procMu.Lock()
		procCount++
		n := procCount
		if procLog != nil {
			_, _ = procLog.Write([]byte{tag})
		}
		procMu.Unlock()
		if n == procKillAt {
			_ = syscall.Kill(os.Getpid(), syscall.SIGKILL)
			select {}
		}
		return orig(b, off)
	}
	return db, nil
}
