//go:build race

package simrt

import "runtime"

// RaceBuild reports whether the binary was built with the race detector.
const RaceBuild = true

func raceDisable() { runtime.RaceDisable() }
func raceEnable()  { runtime.RaceEnable() }

// RaceErrors is the number of race reports emitted so far in this process.
func RaceErrors() int { return runtime.RaceErrors() }
