// Package hook is the leaf through which a rewritten dependency (bbolt) reaches the simulation's runtime: simrt
// itself imports bbolt (the disk proxy), so bbolt cannot import simrt. Without simrt linked in, or with the
// simulator inactive, every function does what the original call did.
package hook

import "sync"

var (
	LockFn          = func(try func() bool, lock func()) { lock() }
	RLockFn         = func(try func() bool, lock func()) { lock() }
	UnlockFn        = func(unlock func()) { unlock() }
	RUnlockFn       = func(unlock func()) { unlock() }
	OnceDoFn        = func(key any, do func(func()), f func()) { do(f) }
	CondWaitFn      = func(c *sync.Cond) { c.Wait() }
	CondSignalFn    = func(c *sync.Cond) { c.Signal() }
	CondBroadcastFn = func(c *sync.Cond) { c.Broadcast() }
)

func Lock(try func() bool, lock func())         { LockFn(try, lock) }
func RLock(try func() bool, lock func())        { RLockFn(try, lock) }
func Unlock(unlock func())                      { UnlockFn(unlock) }
func RUnlock(unlock func())                     { RUnlockFn(unlock) }
func OnceDo(key any, do func(func()), f func()) { OnceDoFn(key, do, f) }
func CondWait(c *sync.Cond)                     { CondWaitFn(c) }
func CondSignal(c *sync.Cond)                   { CondSignalFn(c) }
func CondBroadcast(c *sync.Cond)                { CondBroadcastFn(c) }
