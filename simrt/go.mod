module verif/simrt

go 1.23.0

require go.etcd.io/bbolt v1.4.0

require golang.org/x/sys v0.30.0 // indirect
