#include "textflag.h"

// func getg() uintptr
TEXT ·getg(SB),NOSPLIT,$0-8
	MOVQ (TLS), AX
	MOVQ AX, ret+0(FP)
	RET
