// Package simrt is the runtime of the deterministic simulator: the hooks the instrumented
// copy of the code under test calls (Yield, Lock/Unlock, Keys, BoltOpened), the seeded
// scheduler (sched.go), and the recording/injecting disk proxy (disk.go).
//
// Outside a simulation every hook is a pass-through.
package simrt

import (
	"cmp"
	"slices"

	"verif/simrt/hook"
)

var mapSeed uint64 // 0 = native (random) map iteration order

// SetMapSeed makes Keys() deterministic (sorted, then permuted from seed); 0 restores Go's
// native order. Run() does not touch it: worlds set it per run.
//
//go:norace
func SetMapSeed(seed uint64) { mapSeed = seed }

// Keys replaces `range m` over maps with ordered keys in the instrumented copy. Any order
// is a legal Go execution; here it becomes a function of the run's seed.
//
//go:norace
func Keys[K cmp.Ordered, V any](m map[K]V) []K {
	keys := make([]K, 0, len(m))
	for k := range m {
		keys = append(keys, k)
	}
	seed := mapSeed
	if seed == 0 || len(keys) < 2 {
		return keys
	}
	slices.Sort(keys)
	n := uint64(len(keys))
	for i := len(keys) - 1; i > 0; i-- {
		j := int(Hash3(seed, n, uint64(i)) % uint64(i+1))
		keys[i], keys[j] = keys[j], keys[i]
	}
	return keys
}

func init() {
	hook.LockFn, hook.RLockFn, hook.UnlockFn, hook.RUnlockFn = Lock, RLock, Unlock, RUnlock
	hook.OnceDoFn, hook.CondWaitFn, hook.CondSignalFn, hook.CondBroadcastFn = OnceDo, CondWait, CondSignal, CondBroadcast
}
