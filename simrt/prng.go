package simrt

// Own PRNG: math/rand is race-instrumented and shared; every choice in a run is derived
// from one seed through labelled sub-streams, so adding a draw in one stream does not
// shift another.

// Mix is the splitmix64 finaliser.
//
//go:norace
func Mix(z uint64) uint64 {
	z += 0x9E3779B97F4A7C15
	z = (z ^ (z >> 30)) * 0xBF58476D1CE4E5B9
	z = (z ^ (z >> 27)) * 0x94D049BB133111EB
	return z ^ (z >> 31)
}

// Hash3 is a stateless draw keyed by three integers.
//
//go:norace
func Hash3(a, b, c uint64) uint64 {
	return Mix(Mix(Mix(a)^b*0xD6E8FEB86659FD93) ^ c*0xCA5A826395121157)
}

// HashStr hashes a label (FNV-1a) for sub-stream derivation.
func HashStr(s string) uint64 {
	h := uint64(0xcbf29ce484222325)
	for i := 0; i < len(s); i++ {
		h ^= uint64(s[i])
		h *= 0x100000001b3
	}
	return h
}

// Rand is a splitmix64 stream.
type Rand struct{ s uint64 }

func NewRand(seed uint64) *Rand { return &Rand{s: seed} }

// Sub derives an independent labelled stream from a seed.
func Sub(seed uint64, label string) *Rand { return &Rand{s: Mix(seed ^ HashStr(label))} }

//go:norace
func (r *Rand) U64() uint64 {
	r.s += 0x9E3779B97F4A7C15
	z := r.s
	z = (z ^ (z >> 30)) * 0xBF58476D1CE4E5B9
	z = (z ^ (z >> 27)) * 0x94D049BB133111EB
	return z ^ (z >> 31)
}

// Intn returns a value in [0,n); n<=0 yields 0.
//
//go:norace
func (r *Rand) Intn(n int) int {
	if n <= 0 {
		return 0
	}
	return int(r.U64() % uint64(n))
}

// Range returns a value in [lo,hi].
func (r *Rand) Range(lo, hi int) int {
	if hi <= lo {
		return lo
	}
	return lo + r.Intn(hi-lo+1)
}

// Chance is true with probability num/den.
func (r *Rand) Chance(num, den int) bool { return r.Intn(den) < num }

func (r *Rand) Float() float64 { return float64(r.U64()>>11) / (1 << 53) }
