//go:build !race

package simrt

const RaceBuild = false

func raceDisable() {}
func raceEnable()  {}

func RaceErrors() int { return 0 }
